//! Counting global allocator: per-thread live bytes and allocation count (C18's heap observer).
//! Counters are thread-local `Cell`s with const initialisers, so reading or updating them never
//! allocates; the allocator itself remembers no addresses (it does not hide leaks from memcheck).

use std::alloc::{GlobalAlloc, Layout, System};
use std::cell::Cell;

thread_local! {
    static LIVE: Cell<i64> = const { Cell::new(0) };
    static ALLOCS: Cell<u64> = const { Cell::new(0) };
}

pub struct Counting;

unsafe impl GlobalAlloc for Counting {
    unsafe fn alloc(&self, l: Layout) -> *mut u8 {
        let p = System.alloc(l);
        if !p.is_null() {
            let _ = LIVE.try_with(|c| c.set(c.get() + l.size() as i64));
            let _ = ALLOCS.try_with(|c| c.set(c.get() + 1));
        }
        p
    }
    unsafe fn dealloc(&self, p: *mut u8, l: Layout) {
        System.dealloc(p, l);
        let _ = LIVE.try_with(|c| c.set(c.get() - l.size() as i64));
    }
    unsafe fn alloc_zeroed(&self, l: Layout) -> *mut u8 {
        let p = System.alloc_zeroed(l);
        if !p.is_null() {
            let _ = LIVE.try_with(|c| c.set(c.get() + l.size() as i64));
            let _ = ALLOCS.try_with(|c| c.set(c.get() + 1));
        }
        p
    }
    unsafe fn realloc(&self, p: *mut u8, l: Layout, new_size: usize) -> *mut u8 {
        let q = System.realloc(p, l, new_size);
        if !q.is_null() {
            let _ = LIVE.try_with(|c| c.set(c.get() + new_size as i64 - l.size() as i64));
            let _ = ALLOCS.try_with(|c| c.set(c.get() + 1));
        }
        q
    }
}

/// live heap bytes allocated-minus-freed by the calling thread
pub fn live_bytes() -> i64 {
    LIVE.try_with(|c| c.get()).unwrap_or(0)
}
pub fn alloc_count() -> u64 {
    ALLOCS.try_with(|c| c.get()).unwrap_or(0)
}

/// true when the counting allocator is actually installed in this process
pub fn installed() -> bool {
    let before = alloc_count();
    let v: Vec<u8> = Vec::with_capacity(4096);
    std::hint::black_box(&v);
    let after = alloc_count();
    drop(v);
    after > before
}
