//! Re-run a violation witness against the current /repo and print the comparison.

use crate::dd::dd;
use crate::inst::{parse_hexf, Inst, Op, Out, Params, Res};
use serde_json::Value;

fn run_program(v: &Value, verbose: bool) -> Option<(Params, Vec<Res>)> {
    let p = Params::from_json(v.get("params")?)?;
    let mut inst = match Inst::try_new(&p) {
        Ok(i) => i,
        Err(e) => {
            println!("constructor: {:?}", e);
            return Some((p, vec![Res::Panic(format!("{:?}", e))]));
        }
    };
    let mut res = Vec::new();
    let ops = v.get("ops")?.as_array()?;
    for (i, o) in ops.iter().enumerate() {
        let op = Op::from_json(o)?;
        let r = inst.apply(&op);
        if verbose && (ops.len() <= 40 || i + 5 >= ops.len()) {
            println!("  [{}] {:?} -> {:?}", i + 1, op, r);
        }
        res.push(r);
    }
    Some((p, res))
}

fn last_out(rs: &[Res]) -> Option<Out> {
    rs.iter().rev().find_map(|r| if let Res::Out(o) = r { Some(*o) } else { None })
}

fn transform(name: &str, o: &Out, component: usize) -> f64 {
    match name {
        "square" => (dd(o.v[component]).sqr()).to_f64(),
        "halfwidth_sq" => ((dd(o.v[1]) - dd(o.v[2])) / dd(2.0)).sqr().to_f64(),
        "halfwidth" => ((dd(o.v[1]) - dd(o.v[2])) / dd(2.0)).to_f64(),
        "mid" => ((dd(o.v[1]) + dd(o.v[2])) / dd(2.0)).to_f64(),
        _ => o.v[component],
    }
}

/// exit code: 1 = violation reproduced, 0 = not reproduced, 2 = cannot evaluate
pub fn replay_file(path: &str) -> i32 {
    let txt = match std::fs::read_to_string(path) {
        Ok(t) => t,
        Err(e) => {
            eprintln!("cannot read {}: {}", path, e);
            return 2;
        }
    };
    let v: Value = match serde_json::from_str(&txt) {
        Ok(v) => v,
        Err(e) => {
            eprintln!("bad json: {}", e);
            return 2;
        }
    };
    let f = |x: Option<&Value>| x.and_then(|s| s.as_str()).and_then(parse_hexf);
    println!("property {} signature {}", v["property"], v["sig"]);
    if let Some(d) = v.get("detail") {
        println!("recorded: {}", d);
    }
    if let Some(d) = v.get("note") {
        println!("note: {}", d);
    }
    let check = &v["check"];
    let ty = check["type"].as_str().unwrap_or("");
    if ty == "rerun" {
        println!("this witness is re-checked by re-running the property's check; data: {}", v["data"]);
        return 2;
    }
    let empty = vec![];
    let progs = v["programs"].as_array().unwrap_or(&empty);
    let mut outs = Vec::new();
    for (i, pv) in progs.iter().enumerate() {
        println!("program {}:", i);
        match run_program(pv, true) {
            Some((p, rs)) => {
                println!("  {} final: {:?}", p.label(), rs.last());
                outs.push(rs);
            }
            None => {
                eprintln!("malformed program");
                return 2;
            }
        }
    }
    let comp = check["component"].as_u64().unwrap_or(0) as usize;
    let tr = check["transform"].as_str().unwrap_or("id");
    match ty {
        "value" => {
            let exp = f(check.get("expected")).unwrap_or(f64::NAN);
            let tol = f(check.get("tol")).unwrap_or(0.0);
            match last_out(&outs[0]) {
                Some(o) if !matches!(outs[0].last(), Some(Res::Panic(_))) => {
                    let g = transform(tr, &o, comp);
                    let err = (g - exp).abs();
                    println!("observed {:e} ({}), expected {:e}, |err| {:e}, tol {:e}", g, tr, exp, err, tol);
                    if !(err <= tol) {
                        println!("REPRODUCED");
                        1
                    } else {
                        println!("NOT-REPRODUCED (within tolerance now)");
                        0
                    }
                }
                _ => {
                    println!("REPRODUCED (no output: {:?})", outs[0].last());
                    1
                }
            }
        }
        "twin" => {
            let factor = f(check.get("factor")).unwrap_or(1.0);
            let shift = f(check.get("shift")).unwrap_or(0.0);
            let tol_abs = f(check.get("tol_abs")).unwrap_or(0.0);
            let tol_rel = f(check.get("tol_rel")).unwrap_or(0.0);
            match (last_out(&outs[0]), last_out(&outs[1])) {
                (Some(a), Some(b)) if !matches!(outs[0].last(), Some(Res::Panic(_))) && !matches!(outs[1].last(), Some(Res::Panic(_))) => {
                    let ga = transform(tr, &a, comp);
                    let gb = transform(tr, &b, comp) * factor + shift;
                    let both_nan = ga.is_nan() && gb.is_nan();
                    let err = (ga - gb).abs();
                    let tol = tol_abs + tol_rel * ga.abs().max(gb.abs());
                    println!("A {:e} vs B(transformed) {:e}: |diff| {:e}, tol {:e}", ga, gb, err, tol);
                    if both_nan || ga == gb || err <= tol {
                        println!("NOT-REPRODUCED");
                        0
                    } else {
                        println!("REPRODUCED");
                        1
                    }
                }
                _ => {
                    println!("REPRODUCED (a program did not return an output)");
                    1
                }
            }
        }
        "nopanic" => {
            let bad = outs.iter().flatten().any(|r| matches!(r, Res::Panic(_) | Res::Error(_)));
            if bad {
                println!("REPRODUCED (panic / error)");
                1
            } else {
                println!("NOT-REPRODUCED");
                0
            }
        }
        "range" => {
            let lo = f(check.get("lo")).unwrap_or(f64::NEG_INFINITY);
            let hi = f(check.get("hi")).unwrap_or(f64::INFINITY);
            match last_out(&outs[0]) {
                Some(o) => {
                    let g = o.v[comp];
                    println!("observed {:e}, range [{:e}, {:e}]", g, lo, hi);
                    if g >= lo && g <= hi {
                        println!("NOT-REPRODUCED");
                        0
                    } else {
                        println!("REPRODUCED");
                        1
                    }
                }
                None => 1,
            }
        }
        "text" => {
            let want = check["expected"].as_str().unwrap_or("");
            let got = outs[0].iter().rev().find_map(|r| if let Res::Text(s) = r { Some(s.clone()) } else { None });
            println!("observed {:?}, expected {:?}", got, want);
            if got.as_deref() == Some(want) {
                0
            } else {
                println!("REPRODUCED");
                1
            }
        }
        _ => {
            eprintln!("unknown check type {}", ty);
            2
        }
    }
}
