//! C11 — constructors reject exactly period 0; accessors, Display, Default are faithful.

use crate::common::{replay_rerun, Ctx};
use crate::gen::{BarGen, BarStyle};
use crate::inst::{hexf, Bar, Inst, Kind, NewError, Op, Params, Res, ALL_KINDS};
use crate::report::{par_run, Report};
use crate::rng::Rng;
use serde_json::json;

pub const RULE: &str = "Constructor calls observed under catch_unwind: every single-period constructor for every period 0..=4096 (exhaustive), every multi-period constructor (SLOW 2 periods, MACD/PPO 3 periods) for all tuples over 0..=24 (exhaustive), boundary periods {2^31, 2^32, 2^53+1, usize::MAX-1, usize::MAX} in every period slot of the allocation-free indicators (EMA, ATR, RSI, KC, MACD, PPO, and SLOW's EMA period), sampled large periods up to 2^22 for windowed ones, multipliers {0,-2,1e300,NaN,-0.0,2.5,+inf,-inf,f64::MAX,f64::MIN,MIN_POSITIVE,5e-324,0.1}. Oracle: Err(InvalidParameter) iff some period argument is 0, else Ok, never a panic; period()/multiplier() (bitwise) and Display == NAME(params) immediately, after a stream of next calls, after reset, and on the instance's clone, restored copy and clone_from copy; Default::default() has the documented parameters and produces the same outputs as new(defaults) (1e-12 relative, NaN equal to NaN; bit-identity reported) on a market-like stream and on streams opening with NaN, +-inf, negative prices, zeros and +-f64::MAX. Non-trivial: every (indicator, period tuple, multiplier) constructor call is a distinct case; the enumerated part is exhaustive.";

const BOUNDARY: [usize; 5] = [1usize << 31, 1usize << 32, (1usize << 53) + 1, usize::MAX - 1, usize::MAX];
const MULTS: [f64; 13] = [0.0, -2.0, 1e300, f64::NAN, -0.0, 2.5, f64::INFINITY, f64::NEG_INFINITY, f64::MAX, f64::MIN, f64::MIN_POSITIVE, 5e-324, 0.1];

fn violation(rep: &mut Report, p: &Params, class: &str, detail: String) {
    let band = if p.periods().iter().any(|x| *x > 4096) { "huge_period" } else { "small_period" };
    let sig = format!("{}/c11.{}/{}", p.kind.name(), class, band);
    if rep.is_new_sig(&sig) {
        let replay = replay_rerun("C11", &sig, &detail, json!({"params": p.to_json(), "periods": p.periods(), "multiplier": hexf(p.k)}));
        rep.violation(sig, detail, replay);
    } else {
        rep.violation_again(&sig);
    }
}

/// constructor + accessor oracle for one parameter tuple; `exercise` also feeds a few inputs
pub fn check_ctor(rep: &mut Report, p: &Params, exercise: bool) {
    rep.evaluations += 1;
    let any_zero = p.periods().iter().any(|x| *x == 0);
    match Inst::try_new_explicit(p) {
        Err(NewError::Panic(m)) => violation(rep, p, "ctor_panic", format!("{}::new({:?}, k={}) panicked: {}", p.kind.name(), p.periods(), p.k, m)),
        Err(NewError::Invalid(e)) => {
            if !any_zero {
                violation(rep, p, "ctor_rejects_valid", format!("{}::new({:?}) returned Err({}) although no period is 0", p.kind.name(), p.periods(), e));
            } else if e != "InvalidParameter" {
                violation(rep, p, "ctor_wrong_error", format!("{}::new({:?}) returned Err({}), expected InvalidParameter", p.kind.name(), p.periods(), e));
            } else {
                rep.count("ctor.rejected_period_zero");
            }
        }
        Ok(mut inst) => {
            if any_zero {
                violation(rep, p, "ctor_accepts_zero", format!("{}::new({:?}) returned Ok although a period is 0", p.kind.name(), p.periods()));
                return;
            }
            rep.count("ctor.accepted");
            let check_meta = |rep: &mut Report, inst: &mut Inst, when: &str| {
                let want = p.expected_display();
                match inst.display() {
                    Ok(s) if s == want => {}
                    Ok(s) => violation(rep, p, "display", format!("{}::new({:?}, k={}) Display {:?} {}, expected {:?}", p.kind.name(), p.periods(), p.k, s, when, want)),
                    Err(e) => violation(rep, p, "display_panic", format!("Display panicked {}: {}", when, e.0)),
                }
                if p.kind.has_period() {
                    match inst.period() {
                        Ok(Some(n)) if n == p.p[0] => {}
                        other => violation(rep, p, "period", format!("{}::new({:?}).period() = {:?} {}, expected {}", p.kind.name(), p.periods(), other, when, p.p[0])),
                    }
                }
                if p.kind.has_multiplier() {
                    match inst.multiplier() {
                        Ok(Some(k)) if k.to_bits() == p.k.to_bits() => {}
                        other => violation(rep, p, "multiplier", format!("{}::new(.., {}).multiplier() = {:?} {}", p.kind.name(), p.k, other, when)),
                    }
                }
            };
            check_meta(rep, &mut inst, "right after construction");
            if exercise {
                let mut g = BarGen::new(BarStyle::Mixed, 1.0, p.p[0] as u64 ^ 0xC11);
                let steps = (p.max_period().min(40) * 2 + 3).min(90);
                for i in 0..steps {
                    let b = g.next();
                    let r = if p.kind.has_scalar() && i % 2 == 0 { inst.apply(&Op::NextF(b.c)) } else { inst.apply(&Op::NextBar(b)) };
                    if let Res::Panic(m) = r {
                        violation(rep, p, "next_panic", format!("{} panicked in next: {}", p.label(), m));
                        return;
                    }
                }
                check_meta(rep, &mut inst, "after a stream of next calls");
                let _ = inst.reset();
                check_meta(rep, &mut inst, "after reset");
                // the indicator's life goes on in its copies: a clone, a copy restored from bytes and a used
                // instance overwritten with clone_from (built with other periods) all answer as the original
                for (which, when) in [(0usize, "on its clone"), (1, "on the copy restored from its serialized form"), (2, "on an instance assigned with clone_from")] {
                    for i in 0..3 {
                        let b = g.next();
                        let _ = if p.kind.has_scalar() && i % 2 == 0 { inst.apply(&Op::NextF(b.c)) } else { inst.apply(&Op::NextBar(b)) };
                    }
                    inst.perturb(which);
                    check_meta(rep, &mut inst, when);
                }
                rep.count("ctor.exercised_with_history");
            }
        }
    }
}

fn run_single(ctx: &Ctx) -> Report {
    let mut jobs = Vec::new();
    for kind in ALL_KINDS {
        if kind.n_periods() == 1 {
            for chunk in 0..16usize {
                jobs.push((kind, chunk));
            }
        }
    }
    let thorough = !ctx.quick();
    let maxp: usize = ctx.pick(4096, 32768);
    let mut rep = par_run(jobs, ctx.threads, move |(kind, chunk), rep| {
        for n in (0..=maxp).filter(|n| n % 16 == *chunk) {
            let mut p = Params::new1(*kind, n);
            if kind.has_multiplier() {
                p.k = MULTS[n % MULTS.len()];
            }
            check_ctor(rep, &p, n <= 64 || n % 257 == 0 || (thorough && n <= 4096));
            rep.distinct_by_construction += 1;
        }
    });
    // parameterless constructors
    for kind in [Kind::Tr, Kind::Obv] {
        check_ctor(&mut rep, &kind.default_params(), true);
        rep.distinct_by_construction += 1;
    }
    rep
}

fn run_multi(_ctx: &Ctx) -> Report {
    let mut jobs = Vec::new();
    let top: usize = _ctx.pick(24, 64);
    for kind in [Kind::Slow, Kind::Macd, Kind::Ppo] {
        for a in 0..=top {
            jobs.push((kind, a));
        }
    }
    par_run(jobs, _ctx.threads, move |(kind, a), rep| {
        for b in 0..=top {
            if *kind == Kind::Slow {
                check_ctor(rep, &Params { kind: *kind, p: [*a, b, 0], k: 0.0 }, true);
                rep.distinct_by_construction += 1;
            } else {
                for c in 0..=top {
                    check_ctor(rep, &Params { kind: *kind, p: [*a, b, c], k: 0.0 }, (*a + b + c) % 5 == 0);
                    rep.distinct_by_construction += 1;
                }
            }
        }
    })
}

fn run_boundary(ctx: &Ctx) -> Report {
    let mut rep = Report::new();
    // allocation-free indicators: every boundary value in every period slot
    for &big in &BOUNDARY {
        for kind in [Kind::Ema, Kind::Atr, Kind::Rsi] {
            check_ctor(&mut rep, &Params::new1(kind, big), true);
            rep.count("boundary.huge_period_ctor_calls");
        }
        for k in MULTS {
            check_ctor(&mut rep, &Params::new1(Kind::Kc, big).with_k(k), true);
            rep.count("boundary.huge_period_ctor_calls");
        }
        for kind in [Kind::Macd, Kind::Ppo] {
            for slot in 0..3 {
                let mut p = Params { kind, p: [12, 26, 9], k: 0.0 };
                p.p[slot] = big;
                check_ctor(&mut rep, &p, true);
                let mut p0 = p;
                p0.p[(slot + 1) % 3] = 0; // a zero next to a huge value must still be rejected, not panic
                check_ctor(&mut rep, &p0, false);
                rep.add("boundary.huge_period_ctor_calls", 2);
            }
        }
        check_ctor(&mut rep, &Params { kind: Kind::Slow, p: [14, big, 0], k: 0.0 }, true);
        check_ctor(&mut rep, &Params { kind: Kind::Slow, p: [0, big, 0], k: 0.0 }, false);
        rep.add("boundary.huge_period_ctor_calls", 2);
    }
    rep.distinct_by_construction += rep.counters.get("boundary.huge_period_ctor_calls").copied().unwrap_or(0);
    // windowed indicators: sampled large periods that memory certainly allows
    let mut rng = Rng::derive(ctx.seed, 0xC11, 0);
    let cap: usize = ctx.pick(1 << 20, 1 << 22);
    for kind in ALL_KINDS {
        if kind.windowed() {
            let fixed = [(1usize << 16) + 1, (1 << 20) + 1, (1 << 21) + 3];
            for j in 0..ctx.pick(3, 12) + fixed.len() {
                // three fixed sizes just above 2^16, 2^20 and 2^21 (a silent cap or a narrower counter), then sampled ones
                let n = if j < fixed.len() { fixed[j] } else { rng.range(4097, cap) };
                let mut p = Params::new1(kind, n);
                if kind == Kind::Slow {
                    p.p[1] = rng.range(1, 1 << 40);
                }
                if kind.has_multiplier() {
                    p.k = *rng.pick(&MULTS);
                }
                check_ctor(&mut rep, &p, false);
                rep.count("boundary.large_windowed_ctor_calls");
                rep.distinct_by_construction += 1;
            }
        }
    }
    rep
}

fn run_defaults(ctx: &Ctx) -> Report {
    let mut rep = Report::new();
    for kind in ALL_KINDS {
        rep.evaluations += 1;
        let p = kind.default_params();
        let mut d = match Inst::new_default(kind) {
            Ok(d) => d,
            Err(e) => {
                violation(&mut rep, &p, "default_panic", format!("{}::default() panicked: {}", kind.name(), e.0));
                continue;
            }
        };
        let mut n = Inst::try_new_explicit(&p).unwrap_or_else(|e| panic!("harness: {:?}", e));
        let want = p.expected_display();
        let got = d.display().unwrap_or_default();
        if got != want {
            violation(&mut rep, &p, "default_display", format!("{}::default() displays {:?}, documented defaults give {:?}", kind.name(), got, want));
        }
        if kind.has_period() && d.period().ok().flatten() != Some(p.p[0]) {
            violation(&mut rep, &p, "default_period", format!("{}::default().period() = {:?}, documented {}", kind.name(), d.period(), p.p[0]));
        }
        if kind.has_multiplier() && d.multiplier().ok().flatten().map(f64::to_bits) != Some(p.k.to_bits()) {
            violation(&mut rep, &p, "default_multiplier", format!("{}::default().multiplier() = {:?}, documented {}", kind.name(), d.multiplier(), p.k));
        }
        // behaviour: same outputs as new(defaults) on a stream long enough to wrap every default window
        // (first a stream of market-like bars; then, on fresh instances, streams that open with a value that
        // is not a number, a negative price, a zero - what a constructor's choice of initial fill would show on)
        let mut g = BarGen::new(BarStyle::Mixed, 1.0, ctx.seed ^ 0xDEF);
        let openings: [&[f64]; 7] = [&[], &[f64::NAN], &[f64::INFINITY], &[f64::NEG_INFINITY], &[-5.0, -7.5, -6.0], &[0.0, -0.0], &[f64::MAX, f64::MIN]];
        for i in 0..200 * openings.len() {
            let round = i / 200;
            if i % 200 == 0 && round > 0 {
                d = match Inst::new_default(kind) {
                    Ok(d) => d,
                    Err(_) => break,
                };
                n = Inst::try_new_explicit(&p).unwrap_or_else(|e| panic!("harness: {:?}", e));
            }
            let b = g.next();
            let b = match openings[round].get(i % 200) {
                Some(v) => Bar { o: *v, h: *v, l: *v, c: *v, v: b.v },
                None => b,
            };
            let op = if kind.has_scalar() && i % 2 == 0 { Op::NextF(b.c) } else { Op::NextBar(b) };
            let (ra, rb) = (d.apply(&op), n.apply(&op));
            rep.evaluations += 1;
            let same = match (&ra, &rb) {
                (Res::Out(x), Res::Out(y)) => {
                    if !x.bits_eq(y) {
                        rep.count("defaults.equal_within_1e-12_but_not_bitwise");
                    }
                    crate::inst::out_rel_close(x, y, 1e-12)
                }
                _ => ra == rb,
            };
            if !same {
                violation(&mut rep, &p, "default_behaviour", format!("{}::default() returned {:?} at step {}, new(documented defaults) {:?}", kind.name(), ra, i + 1, rb));
                break;
            }
        }
        rep.count("defaults.checked");
        rep.distinct_by_construction += 1;
        rep.sample(json!({"indicator": kind.name(), "default_display": got, "documented": want}));
    }
    rep
}

pub fn run(ctx: &Ctx) -> Report {
    let mut rep = Report::new();
    if ctx.phase_enabled("single") {
        rep.merge(run_single(ctx));
    }
    if ctx.phase_enabled("multi") {
        rep.merge(run_multi(ctx));
    }
    if ctx.phase_enabled("boundary") {
        rep.merge(run_boundary(ctx));
    }
    if ctx.phase_enabled("defaults") {
        rep.merge(run_defaults(ctx));
    }
    // coverage floors, per enabled phase (the driver runs the boundary phase in a process of its own)
    let floors: [(&str, &[&str]); 4] = [
        ("single", &["ctor.rejected_period_zero", "ctor.accepted", "ctor.exercised_with_history"]),
        ("multi", &["ctor.accepted"]),
        ("boundary", &["boundary.huge_period_ctor_calls", "boundary.large_windowed_ctor_calls"]),
        ("defaults", &["defaults.checked"]),
    ];
    for (phase, keys) in floors {
        if ctx.phase_enabled(phase) {
            for key in keys {
                if rep.counters.get(*key).copied().unwrap_or(0) == 0 {
                    rep.inconclusive.push(format!("coverage floor missed: {} = 0", key));
                }
            }
        }
    }
    rep
}
