//! C03 — oscillators equal their documented formulas wherever these are well-conditioned.

use crate::common::Ctx;
use crate::gen::{amzn_bars, BandGen, BarGen, BAND_REGIMES, BAR_STYLES};
use crate::inst::{Bar, In, Kind, Out, Params};
use crate::oracles::{osc_judgements, Judgements};
use crate::refmodel::RefOut;
use crate::report::{hash_f64s, par_run, Report};
use crate::rng::Rng;
use crate::stream::{check_last, enum_sequences, run_stream};
use serde_json::json;

pub const SCALAR_KINDS: [Kind; 6] = [Kind::Rsi, Kind::Fast, Kind::Slow, Kind::Roc, Kind::Er, Kind::Ppo];
pub const BAR_KINDS: [Kind; 9] = [Kind::Rsi, Kind::Fast, Kind::Slow, Kind::Roc, Kind::Er, Kind::Ppo, Kind::Cci, Kind::Mfi, Kind::Obv];

pub const RULE: &str = "Positive scalar price streams (band regimes, m in 1e-3..1e6) for RSI/FAST/SLOW/ROC/ER/PPO and valid OHLCV bars with close != (high+low)/2, equal neighbours and zero volume (6 bar styles + tiled AMZN) for those plus CCI/MFI/OBV, periods to 512; every output judged at every step against a double-double from-scratch evaluation of the documented formula at tolerance tau(t)*c*scale when the condition number c <= 1e6 and the reference denominator is non-zero (others counted as skipped); plus long runs of 1.1*10^6 (quick) / 2.2*10^6 (thorough) bars judged on the first 3000 steps, every 997th and the last; plus every sequence up to a depth bound over a small positive price / bar alphabet for periods 1..=5 (exhaustive). Non-trivial: stream longer than the period and at least one judged (well-conditioned) step; distinct by hash of (indicator, params, stream head) or by construction.";

fn judge(p: &Params, out: &Out, r: &RefOut, js: &mut Judgements) -> usize {
    osc_judgements(p, out, r, js)
}

fn params_for(kind: Kind, rng: &mut Rng, maxp: usize) -> Params {
    // one draw in twelve is the documented default configuration (which the wrapper builds through Default::default())
    if rng.below(12) == 0 {
        return kind.default_params();
    }
    let per = |rng: &mut Rng| match rng.below(8) {
        0 => 1,
        1 => 2,
        2 => 3,
        _ => (rng.log_uniform(1.0, maxp as f64 + 0.99) as usize).clamp(1, maxp),
    };
    let mut p = Params::new1(kind, per(rng));
    match kind {
        Kind::Ppo => {
            let (a, b, c) = (per(rng), per(rng), per(rng));
            p.p = match rng.below(4) {
                0 => [a, a, c],
                1 => [a.max(b), a.min(b), c],
                _ => [a.min(b), a.max(b), c],
            };
        }
        Kind::Slow => p.p[1] = per(rng).min(64),
        _ => {}
    }
    p
}

fn run_scalar(ctx: &Ctx) -> Report {
    let njobs = ctx.pick(1920, 28800);
    let seed = ctx.seed;
    let maxlen = ctx.pick(5000usize, 20000usize);
    let jobs: Vec<usize> = (0..njobs).collect();
    par_run(jobs, ctx.threads, move |idx, rep| {
        let mut rng = Rng::derive(seed, 0xC03, *idx as u64);
        let len = rng.range(40, maxlen);
        // positive prices in any unit: mostly ordinary, sometimes 1e-24..1e-12 or 1e9..1e12 per unit
        let m = match idx % 9 {
            7 => rng.log_uniform(1e-24, 1e-12),
            8 => rng.log_uniform(1e6, 1e9),
            _ => *rng.pick(&[1e-3, 0.1, 1.0, 37.5, 1e3, 1e6]),
        };
        if idx % 9 >= 7 {
            rep.count("scalar.streams_in_tiny_or_huge_units");
        }
        let mut g = BandGen::new(BAND_REGIMES[idx % BAND_REGIMES.len()], m, rng.u64());
        let xs = g.take(len);
        let inputs: Vec<In> = xs.iter().map(|x| In::S(*x)).collect();
        for kind in SCALAR_KINDS {
            let p = params_for(kind, &mut rng, 512);
            let st = run_stream(rep, "C03", "c03", &p, &inputs, usize::MAX, 1, &judge);
            rep.count("scalar.streams");
            if st.steps > p.max_period() && st.judged > 0 {
                rep.distinct_case(hash_f64s(kind as u64 * 131 + p.p[0] as u64 * 3 + p.p[1] as u64, &xs[..xs.len().min(64)]));
            }
            if p.p[0] == 1 {
                rep.count("period_1");
            }
        }
    })
}

fn run_bars(ctx: &Ctx) -> Report {
    let njobs = ctx.pick(1920, 28800);
    let seed = ctx.seed;
    let maxlen = ctx.pick(4000usize, 15000usize);
    let amzn = amzn_bars(&format!("{}/examples/data/AMZN.csv", ctx.repo));
    let jobs: Vec<usize> = (0..njobs).collect();
    par_run(jobs, ctx.threads, move |idx, rep| {
        let mut rng = Rng::derive(seed, 0xC03B, *idx as u64);
        let len = rng.range(30, maxlen);
        let bars: Vec<Bar> = if idx % 8 == 7 && !amzn.is_empty() {
            (0..len)
                .map(|i| {
                    let b = amzn[i % amzn.len()];
                    let f = 1.0 + 0.05 * ((i / amzn.len()) as f64).sin();
                    Bar { v: (b.v * (0.5 + rng.f())).floor(), ..b.scale_prices(f) }
                })
                .collect()
        } else {
            let base = *rng.pick(&[1e-2, 1.0, 50.0, 1e4]);
            BarGen::new(BAR_STYLES[idx % BAR_STYLES.len()], base, rng.u64()).take(len)
        };
        // a sixth of the bar streams are re-expressed in other units: prices and volumes both tiny (flows
        // ~1e-16 and below), or both huge
        let bars: Vec<Bar> = if idx % 6 == 5 {
            let (pf, vf) = *rng.pick(&[(1e-8, 1e-8), (1e-9, 1e-7), (1e-12, 1e-6), (1e6, 1e6)]);
            rep.count("bars.streams_in_tiny_or_huge_units");
            bars.iter().map(|b| Bar { v: b.v * vf, ..b.scale_prices(pf) }).collect()
        } else {
            bars
        };
        let inputs: Vec<In> = bars.iter().map(|b| In::B(*b)).collect();
        let heads: Vec<f64> = bars.iter().take(16).flat_map(|b| b.fields()).collect();
        let tp_ne_close = bars.iter().filter(|b| (b.tp_f64() - b.c).abs() > 1e-9 * b.c.abs()).count();
        rep.add("bars.typical_price_differs_from_close", tp_ne_close as u64);
        rep.add("bars.zero_volume", bars.iter().filter(|b| b.v == 0.0).count() as u64);
        rep.add("bars.equal_neighbours", bars.windows(2).filter(|w| w[0] == w[1]).count() as u64);
        for kind in BAR_KINDS {
            let p = params_for(kind, &mut rng, 512);
            let st = run_stream(rep, "C03", "c03", &p, &inputs, usize::MAX, 1, &judge);
            rep.count("bar.streams");
            if st.steps > p.max_period() && st.judged > 0 {
                rep.distinct_case(hash_f64s(0xB000 + kind as u64 * 131 + p.p[0] as u64, &heads));
            }
        }
    })
}

fn bar_alphabet() -> Vec<In> {
    [
        (10.0, 10.0, 10.0, 10.0, 1.0),  // flat
        (10.0, 12.0, 8.0, 9.5, 0.0),    // tp != close, zero volume
        (11.0, 11.0, 9.0, 9.25, 5.0),
        (9.0, 12.0, 9.0, 12.0, 2.0),    // close at high
        (20.0, 21.0, 19.0, 20.5, 1.0),
        (5.0, 6.0, 4.0, 4.0, 3.0),      // close at low
        (10.0, 12.0, 8.0, 9.5, 7.0),    // same prices as #1, different volume
    ]
    .iter()
    .map(|&(o, h, l, c, v)| In::B(Bar { o, h, l, c, v }))
    .collect()
}

fn run_enum(ctx: &Ctx) -> Report {
    let depth_b = ctx.pick(6, 8);
    let depth_s = ctx.pick(7, 10);
    let balpha = bar_alphabet();
    let salpha: Vec<In> = [0.5, 1.0, 1.0 + f64::EPSILON, 3.5, 100.0].iter().map(|x| In::S(*x)).collect();
    let mut jobs = Vec::new();
    for kind in BAR_KINDS {
        for n in 1..=5usize {
            for first in 0..balpha.len() {
                jobs.push((kind, n, true, first));
            }
            if kind.has_scalar() {
                for first in 0..salpha.len() {
                    jobs.push((kind, n, false, first));
                }
            }
        }
    }
    par_run(jobs, ctx.threads, move |(kind, n, bars, first), rep| {
        let mut js = Vec::new();
        let variants: Vec<Params> = match kind {
            Kind::Ppo => vec![Params { kind: *kind, p: [*n, *n + 1, 2], k: 0.0 }, Params { kind: *kind, p: [*n + 1, *n, 1], k: 0.0 }],
            Kind::Slow => vec![Params { kind: *kind, p: [*n, 2, 0], k: 0.0 }, Params { kind: *kind, p: [*n, 1, 0], k: 0.0 }],
            Kind::Obv if *n > 1 => vec![],
            _ => vec![Params::new1(*kind, *n)],
        };
        let (alpha, depth) = if *bars { (&balpha, depth_b) } else { (&salpha, depth_s) };
        for p in &variants {
            enum_sequences(alpha, *first, depth, &mut |seq| {
                if let Some((out, r)) = check_last(rep, "C03", "c03", p, seq, &judge, &mut js) {
                    if seq.len() > p.max_period() && !js.is_empty() {
                        rep.distinct_by_construction += 1;
                    }
                    if r.degenerate {
                        rep.count("enum.degenerate_reference_skipped");
                    }
                    rep.count(if *bars { "enum.bar_sequences" } else { "enum.scalar_sequences" });
                    if rep.wants_sample() && seq.len() == depth && *first == 1 && !js.is_empty() {
                        rep.sample(json!({"phase": "enum", "indicator": p.label(), "ops": crate::common::ops_json(seq), "observed": out.to_json(),
                            "reference": js.iter().map(|q| format!("{}={:e} tol={:e}", q.name, q.reference.to_f64(), q.tol)).collect::<Vec<_>>()}));
                    }
                }
            });
        }
    })
}

/// long runs for the oscillators (EMA-based ones have infinite memory; OBV is a running sum)
fn run_soak(ctx: &Ctx) -> Report {
    let steps = ctx.pick(1_100_000usize, 2_200_000usize); // quick passes 2^20, thorough 2^21
    let seed = ctx.seed;
    let mut jobs = Vec::new();
    for (i, regime) in [crate::gen::Regime::Walk, crate::gen::Regime::Saw(100), crate::gen::Regime::AltExtremes, crate::gen::Regime::Plateau].iter().enumerate() {
        jobs.push((i, *regime));
    }
    par_run(jobs, ctx.threads, move |(i, regime), rep| {
        let mut rng = Rng::derive(seed, 0xC035, *i as u64);
        let m = *rng.pick(&[1e-2, 1.0, 1e3]);
        let mut g = BandGen::new(*regime, m, rng.u64());
        let mut prev: Option<Bar> = None;
        let bars: Vec<Bar> = (0..steps)
            .map(|_| {
                let c = g.next();
                let b = match prev {
                    Some(pb) if rng.chance(0.02) => pb,
                    _ => Bar { o: c * (1.0 - 0.002 * rng.f()), h: c * (1.0 + 0.01 * rng.f()), l: c * (1.0 - 0.01 * rng.f()), c, v: if rng.chance(0.05) { 0.0 } else { (rng.f() * 1e3).floor() } },
                };
                prev = Some(b);
                b
            })
            .collect();
        let inputs: Vec<In> = bars.iter().map(|b| In::B(*b)).collect();
        let scalars: Vec<In> = bars.iter().map(|b| In::S(b.c)).collect();
        for kind in BAR_KINDS {
            let p = params_for(kind, &mut rng, 48);
            run_stream(rep, "C03", "c03", &p, if kind.has_scalar() && *i % 2 == 0 { &scalars } else { &inputs }, 3000, 997, &judge);
            rep.count("soak.long_streams");
            rep.distinct_by_construction += 1;
        }
    })
}

fn run_huge_periods(ctx: &Ctx) -> Report {
    let jobs = crate::common::huge_period_params();
    let seed = ctx.seed;
    par_run(jobs, ctx.threads, move |p, rep| {
        if !BAR_KINDS.contains(&p.kind) {
            return;
        }
        let mut rng = Rng::derive(seed, 0xC03E, p.p[0] as u64 ^ p.p[1] as u64);
        let xs = BandGen::new(BAND_REGIMES[rng.below(BAND_REGIMES.len())], 1.0, rng.u64()).take(300);
        let inputs: Vec<In> = xs.iter().map(|x| In::S(*x)).collect();
        run_stream(rep, "C03", "c03", p, &inputs, usize::MAX, 1, &judge);
        rep.count("huge_period_streams");
        rep.distinct_by_construction += 1;
    })
}

pub fn run(ctx: &Ctx) -> Report {
    let mut rep = Report::new();
    if ctx.phase_enabled("huge") {
        rep.merge(run_huge_periods(ctx));
    }
    if ctx.phase_enabled("soak") {
        rep.merge(run_soak(ctx));
    }
    if ctx.phase_enabled("scalar") {
        rep.merge(run_scalar(ctx));
    }
    if ctx.phase_enabled("bars") {
        rep.merge(run_bars(ctx));
    }
    if ctx.phase_enabled("enum") {
        rep.merge(run_enum(ctx));
    }
    if ctx.only.is_none() {
        for key in ["bars.typical_price_differs_from_close", "bars.zero_volume", "bars.equal_neighbours", "period_1", "enum.bar_sequences", "enum.scalar_sequences", "phase.wrapped_twice_or_more", "soak.long_streams"] {
            if rep.counters.get(key).copied().unwrap_or(0) == 0 {
                rep.inconclusive.push(format!("coverage floor missed: {} = 0", key));
            }
        }
        // every oscillator must have had well-conditioned steps judged
        for k in BAR_KINDS {
            if !rep.ratios.keys().any(|x| x.starts_with(&format!("c03.{}.", k.name()))) {
                rep.inconclusive.push(format!("no judged step for {}", k.name()));
            }
        }
    }
    rep
}
