use crate::common::Ctx;
use crate::report::Report;

pub mod c01;
pub mod c02;
pub mod c03;
pub mod c04;
pub mod c05;
pub mod c06;
pub mod c07;
pub mod c08;
pub mod c09;
pub mod c10;
pub mod c11;
pub mod c12;
pub mod c13;
pub mod c14;
pub mod c15;
pub mod c16;
pub mod c17;
pub mod c18;

/// (report, rule, explanation, exhaustive-subspace flag)
pub fn run(prop: &str, ctx: &Ctx) -> Option<(Report, &'static str, &'static str, bool)> {
    Some(match prop {
        "C01" => (c01::run(ctx), c01::RULE, "", true),
        "C02" => (c02::run(ctx), c02::RULE, "", true),
        "C03" => (c03::run(ctx), c03::RULE, "", true),
        "C04" => (c04::run(ctx), c04::RULE, "", true),
        "C05" => (c05::run(ctx), c05::RULE, "", true),
        "C06" => (c06::run(ctx), c06::RULE, "", true),
        "C07" => (c07::run(ctx), c07::RULE, "", false),
        "C08" => (c08::run(ctx), c08::RULE, "", true),
        "C09" => (c09::run(ctx), c09::RULE, "", false),
        "C10" => (c10::run(ctx), c10::RULE, "", false),
        "C11" => (c11::run(ctx), c11::RULE, "", true),
        "C12" => (c12::run(ctx), c12::RULE, "", false),
        "C13" => (c13::run(ctx), c13::RULE, "", false),
        "C14" => (c14::run(ctx), c14::RULE, "", false),
        "C15" => (c15::run(ctx), c15::RULE, "", false),
        "C16" => (c16::run(ctx), c16::RULE, "", true),
        "C17" => (c17::run(ctx), c17::RULE, "", false),
        "C18" => (c18::run(ctx), c18::RULE, "", false),
        _ => return None,
    })
}
