use crate::common::Ctx;
use crate::report::Report;

pub mod c01;

/// (report, rule, explanation, exhaustive-subspace flag)
pub fn run(prop: &str, ctx: &Ctx) -> Option<(Report, &'static str, &'static str, bool)> {
    Some(match prop {
        "C01" => (c01::run(ctx), c01::RULE, "", true),
        _ => return None,
    })
}
