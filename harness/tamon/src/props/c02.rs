//! C02 — EMA recursion and everything wired from it follow the documented definition.

use crate::common::Ctx;
use crate::dd::{dd, Dd};
use crate::gen::{amzn_bars, rand_stream, BandGen, BarGen, BAND_REGIMES, BAR_STYLES, RAND_KINDS};
use crate::inst::{Bar, In, Kind, Out, Params};
use crate::oracles::{ema_family_judgements, Judgements};
use crate::refmodel::{ema_from_scratch, RefOut};
use crate::report::{hash_f64s, par_run, Report};
use crate::rng::Rng;
use crate::stream::{check_last, enum_sequences, run_stream};
use serde_json::json;

pub const KINDS: [Kind; 6] = [Kind::Ema, Kind::Tr, Kind::Atr, Kind::Macd, Kind::Kc, Kind::Ce];
pub const MULTS: [f64; 8] = [0.0, 0.5, 2.0, 3.0, 1e3, -1.0, 2.1, 0.1];

pub const RULE: &str = "Seeded scalar streams (any sign, RAND and band REGIME families) and OHLCV bar streams (6 styles + tiled AMZN; a quarter negated, a fifth with crossed bars high < low) for EMA/TR/ATR/MACD/KC/CE with periods incl. 1, equal and inverted fast/slow, up to 1024, multipliers {0,0.5,2,3,1e3,-1,2.1,0.1}, incl. scalar streams of magnitude 1e100..1e150, 1e-150..1e-100 and one-signed streams in [6.5e307, 8.5e307] (just below overflow; multipliers <= 3 there); every output component judged at every step against a double-double evaluation of the documented recursion over the whole history; plus long runs of 1.1*10^6 (quick) / 2.2*10^6 (thorough) inputs judged on the first 3000 steps, every 997th and the last; plus every bar/scalar sequence up to a depth bound over a small alphabet for periods 1..=4 (exhaustive). Non-trivial: stream longer than every period with >= 2 distinct inputs; distinct by hash of (indicator, params, stream head) or by construction (enumeration).";

fn judge(p: &Params, out: &Out, r: &RefOut, js: &mut Judgements) -> usize {
    ema_family_judgements(p, out, r, js);
    0
}

fn params_for(kind: Kind, rng: &mut Rng, maxp: usize) -> Params {
    // one draw in twelve is the documented default configuration (which the wrapper builds through Default::default())
    if rng.below(12) == 0 {
        return kind.default_params();
    }
    let per = |rng: &mut Rng| match rng.below(8) {
        0 => 1,
        1 => 2,
        2 => 3,
        _ => (rng.log_uniform(1.0, maxp as f64 + 0.99) as usize).clamp(1, maxp),
    };
    let mut p = Params::new1(kind, per(rng));
    match kind {
        Kind::Macd => {
            let a = per(rng);
            let b = per(rng);
            let c = per(rng);
            p.p = match rng.below(4) {
                0 => [a, a, c],                 // equal fast / slow
                1 => [a.max(b), a.min(b), c],   // fast > slow
                _ => [a.min(b), a.max(b), c],
            };
        }
        Kind::Kc | Kind::Ce => p.k = *rng.pick(&MULTS),
        _ => {}
    }
    if kind == Kind::Ce {
        p.p[0] = p.p[0].min(256);
    }
    p
}

/// which TR arm is the maximum on this bar (coverage of the three-way max)
fn tr_arm(b: &Bar, prev_close: Option<f64>) -> &'static str {
    match prev_close {
        None => "tr.first_bar",
        Some(pc) => {
            let d1 = b.h - b.l;
            let d2 = (b.h - pc).abs();
            let d3 = (b.l - pc).abs();
            if d1 >= d2 && d1 >= d3 {
                "tr.arm.high_minus_low"
            } else if d2 >= d3 {
                "tr.arm.high_vs_prev_close"
            } else {
                "tr.arm.low_vs_prev_close"
            }
        }
    }
}

fn run_scalar(ctx: &Ctx) -> Report {
    let njobs = ctx.pick(3200, 48000);
    let seed = ctx.seed;
    let maxlen = ctx.pick(6000usize, 20000usize);
    let jobs: Vec<usize> = (0..njobs).collect();
    par_run(jobs, ctx.threads, move |idx, rep| {
        let mut rng = Rng::derive(seed, 0xC02, *idx as u64);
        let len = rng.range(50, maxlen);
        let near_max = idx % 16 == 6;
        let xs: Vec<f64> = if near_max {
            // "every finite stream" reaches up to f64::MAX. One-signed values in [6.5e307, 8.5e307]: every
            // quantity the documented formulas form from them (|x - previous x| <= 2e307, convex combinations,
            // average +- 3*ATR <= 1.45e308) is representable, so a correct implementation stays finite; one
            // that sums or scales inputs on the way (x+x+x, 100*x) overflows
            rep.count("scalar.streams_near_f64_max");
            let sign = if rng.chance(0.5) { -1.0 } else { 1.0 };
            (0..len.min(800)).map(|i| if i % 7 == 3 { sign * 6.5e307 } else { sign * (6.5e307 + 2e307 * rng.f()) }).collect()
        } else if idx % 16 == 14 {
            // "every finite stream": magnitudes far outside the usual price range (kept below 1e150 so that
            // multiplier * ATR cannot overflow in a correct implementation either)
            rep.count("scalar.streams_with_huge_or_tiny_magnitudes");
            rand_stream(if idx % 32 == 14 { crate::gen::RandKind::Huge } else { crate::gen::RandKind::Tiny }, len, &mut rng)
        } else if idx % 2 == 0 {
            rand_stream(RAND_KINDS[(idx / 2) % RAND_KINDS.len()], len, &mut rng)
        } else {
            let m = *rng.pick(&[1e-3, 1.0, 37.5, 1e6]);
            let mut g = BandGen::new(BAND_REGIMES[(idx / 2) % BAND_REGIMES.len()], m, rng.u64());
            let sign = if rng.chance(0.3) { -1.0 } else { 1.0 };
            g.take(len).into_iter().map(|x| sign * x).collect()
        };
        let inputs: Vec<In> = xs.iter().map(|x| In::S(*x)).collect();
        for kind in [Kind::Ema, Kind::Tr, Kind::Atr, Kind::Macd, Kind::Kc] {
            let mut p = params_for(kind, &mut rng, 1024);
            if near_max && p.k.abs() > 3.0 {
                p.k = 3.0;
            }
            let st = run_stream(rep, "C02", "c02", &p, &inputs, usize::MAX, 1, &judge);
            rep.count("scalar.streams");
            if st.steps > p.max_period() {
                rep.distinct_case(hash_f64s(kind as u64 * 31 + p.p[0] as u64 * 7 + p.p[1] as u64, &xs[..xs.len().min(64)]));
            }
            if kind == Kind::Macd {
                rep.count(if p.p[0] == p.p[1] { "macd.fast_eq_slow" } else if p.p[0] > p.p[1] { "macd.fast_gt_slow" } else { "macd.fast_lt_slow" });
                if xs.iter().any(|x| *x < 0.0) || true {
                    rep.count("macd.signal_fed_signed_values");
                }
            }
            if p.p[0] == 1 {
                rep.count("period_1.alpha_is_1");
            }
            if p.max_period() >= 512 {
                rep.count("period_ge_512");
            }
        }
        // harness self-check: the carried double-double EMA equals a from-scratch pass over the
        // whole history (confirms the reference, not the crate)
        if len <= 4000 {
            let n = rng.range(1, 64);
            let hist: Vec<Dd> = xs.iter().map(|x| dd(*x)).collect();
            let scratch = ema_from_scratch(&hist, n);
            let mut rm = crate::refmodel::RefModel::new(&Params::new1(Kind::Ema, n));
            let mut last = Dd::ZERO;
            for x in &inputs {
                last = rm.push(x).v[0];
            }
            if (last - scratch).abs().to_f64() > 1e-25 * rm.m.max(1e-300) {
                rep.inconclusive.push("reference self-check failed: carried EMA != from-scratch EMA".into());
            }
            rep.count("reference_self_checks");
        }
    })
}

fn run_bars(ctx: &Ctx) -> Report {
    let njobs = ctx.pick(2400, 36000);
    let seed = ctx.seed;
    let maxlen = ctx.pick(4000usize, 15000usize);
    let amzn = amzn_bars(&format!("{}/examples/data/AMZN.csv", ctx.repo));
    let jobs: Vec<usize> = (0..njobs).collect();
    par_run(jobs, ctx.threads, move |idx, rep| {
        let mut rng = Rng::derive(seed, 0xC02B, *idx as u64);
        let len = rng.range(30, maxlen);
        let bars: Vec<Bar> = if idx % 8 == 7 && !amzn.is_empty() {
            // realistic seed, tiled with a slowly drifting perturbation
            (0..len)
                .map(|i| {
                    let b = amzn[i % amzn.len()];
                    let f = 1.0 + 0.05 * ((i / amzn.len()) as f64).sin() + 1e-3 * rng.f();
                    Bar { v: b.v * (1.0 + rng.f()), ..b.scale_prices(f) }
                })
                .collect()
        } else {
            let base = *rng.pick(&[1e-2, 1.0, 50.0, 1e4]);
            BarGen::new(BAR_STYLES[idx % BAR_STYLES.len()], base, rng.u64()).take(len)
        };
        // a quarter of the bar streams are negated (high and low swapped so that low <= close <= high
        // still holds): spreads and de-meaned series are valid bars with negative prices
        let bars: Vec<Bar> = if idx % 4 == 3 { bars.iter().map(|b| Bar { o: -b.o, h: -b.l, l: -b.h, c: -b.c, v: b.v }).collect() } else { bars };
        if idx % 4 == 3 {
            rep.count("bar.streams_with_negative_prices");
        }
        // The formulas are stated for any bar: the statement puts no low <= high premise on TrueRange (C09
        // does, for its sign claim). A fifth of the bar streams carry crossed bars (high < low, as a feed with
        // swapped columns or a bad tick produces) through a user bar type.
        let bars: Vec<Bar> = if idx % 5 == 2 {
            rep.count("bar.streams_with_crossed_bars");
            bars.iter().enumerate().map(|(i, b)| if i % 8 == 3 || (i % 64 > 40 && i % 64 < 46) { Bar { h: b.l, l: b.h, ..*b } } else { *b }).collect()
        } else {
            bars
        };
        let inputs: Vec<In> = bars.iter().map(|b| In::B(*b)).collect();
        // TR arm coverage
        let mut pc = None;
        for b in &bars {
            rep.count(tr_arm(b, pc));
            pc = Some(b.c);
        }
        let heads: Vec<f64> = bars.iter().take(16).flat_map(|b| b.fields()).collect();
        for kind in KINDS {
            let p = params_for(kind, &mut rng, 1024);
            let st = run_stream(rep, "C02", "c02", &p, &inputs, usize::MAX, 1, &judge);
            rep.count("bar.streams");
            if st.steps > p.max_period() {
                rep.distinct_case(hash_f64s(0xB000 + kind as u64 * 31 + p.p[0] as u64, &heads));
            }
            if p.kind.has_multiplier() {
                rep.count(&format!("multiplier.{}", p.k));
            }
        }
    })
}

fn bar_alphabet() -> Vec<In> {
    [
        (10.0, 10.0, 10.0, 10.0, 1.0),  // flat
        (10.0, 12.0, 8.0, 9.5, 0.0),    // close != (h+l)/2, zero volume
        (11.0, 11.0, 9.0, 9.25, 5.0),   // open at high
        (9.0, 12.0, 9.0, 12.0, 2.0),    // close at high, open at low
        (20.0, 21.0, 19.0, 20.5, 1.0),  // gap up
        (5.0, 6.0, 4.0, 4.0, 3.0),      // gap down, close at low
        (10.0, 12.0, 8.0, 9.5, 0.0),    // exact repeat of #1 (equal neighbours)
        (8.5, 8.0, 9.0, 8.4, 1.0),      // crossed: high < low
    ]
    .iter()
    .map(|&(o, h, l, c, v)| In::B(Bar { o, h, l, c, v }))
    .collect()
}

fn run_enum(ctx: &Ctx) -> Report {
    let depth_b = ctx.pick(6, 7);
    let depth_s = ctx.pick(8, 9);
    let balpha = bar_alphabet();
    let salpha: Vec<In> = [-2.0, 0.0, 1.0, 1.0 + f64::EPSILON, 3.5].iter().map(|x| In::S(*x)).collect();
    let mut jobs = Vec::new();
    for kind in KINDS {
        for n in 1..=4usize {
            for first in 0..balpha.len() {
                jobs.push((kind, n, true, first));
            }
            if kind.has_scalar() {
                for first in 0..salpha.len() {
                    jobs.push((kind, n, false, first));
                }
            }
        }
    }
    par_run(jobs, ctx.threads, move |(kind, n, bars, first), rep| {
        let mut js = Vec::new();
        let variants: Vec<Params> = match kind {
            Kind::Macd => vec![
                Params { kind: *kind, p: [*n, *n + 1, 2], k: 0.0 },
                Params { kind: *kind, p: [*n + 1, *n, 1], k: 0.0 },
                Params { kind: *kind, p: [*n, *n, 3], k: 0.0 },
            ],
            Kind::Kc | Kind::Ce => vec![Params::new1(*kind, *n).with_k(2.0), Params::new1(*kind, *n).with_k(0.5)],
            _ => vec![Params::new1(*kind, *n)],
        };
        let (alpha, depth) = if *bars { (&balpha, depth_b) } else { (&salpha, depth_s) };
        for p in &variants {
            enum_sequences(alpha, *first, depth, &mut |seq| {
                if let Some((out, _)) = check_last(rep, "C02", "c02", p, seq, &judge, &mut js) {
                    if seq.len() > p.max_period() {
                        rep.distinct_by_construction += 1;
                    }
                    rep.count(if *bars { "enum.bar_sequences" } else { "enum.scalar_sequences" });
                    if rep.wants_sample() && seq.len() == depth && *first == 1 {
                        rep.sample(json!({"phase": "enum", "indicator": p.label(), "ops": crate::common::ops_json(seq), "observed": out.to_json()}));
                    }
                }
            });
        }
    })
}

/// long runs (the recursions have infinite memory: a counter, a re-seed or precision loss far into
/// the stream is invisible to short streams); judged on the first 3000 steps, every 997th and the last
fn run_soak(ctx: &Ctx) -> Report {
    let steps = ctx.pick(1_100_000usize, 2_200_000usize); // quick passes 2^20, thorough 2^21
    let seed = ctx.seed;
    let mut jobs = Vec::new();
    for (i, regime) in [crate::gen::Regime::Walk, crate::gen::Regime::Saw(100), crate::gen::Regime::AltExtremes, crate::gen::Regime::BadTicks].iter().enumerate() {
        for bars in [false, true] {
            jobs.push((i, *regime, bars));
        }
    }
    par_run(jobs, ctx.threads, move |(i, regime, bars), rep| {
        let mut rng = Rng::derive(seed, 0xC025, *i as u64 + if *bars { 100 } else { 0 });
        let m = *rng.pick(&[1e-3, 1.0, 1e4]);
        let inputs: Vec<In> = if *bars {
            let mut g = BandGen::new(*regime, m, rng.u64());
            (0..steps)
                .map(|_| {
                    let c = g.next();
                    In::B(Bar { o: c * (1.0 - 0.002 * rng.f()), h: c * (1.0 + 0.01 * rng.f()), l: c * (1.0 - 0.01 * rng.f()), c, v: rng.f() * 1e3 })
                })
                .collect()
        } else {
            let sign = if rng.chance(0.3) { -1.0 } else { 1.0 };
            BandGen::new(*regime, m, rng.u64()).take(steps).into_iter().map(|x| In::S(sign * x)).collect()
        };
        for kind in KINDS {
            if !*bars && !kind.has_scalar() {
                continue;
            }
            let mut p = params_for(kind, &mut rng, 64);
            if kind == Kind::Ce {
                p.p[0] = p.p[0].min(32);
            }
            run_stream(rep, "C02", "c02", &p, &inputs, 3000, 997, &judge);
            rep.count("soak.long_streams");
            rep.distinct_by_construction += 1;
        }
    })
}

/// allocation-free indicators accept any period up to usize::MAX: alpha = 2/(n+1) is then ~1e-19 and
/// the recursion barely moves, which the reference evaluates exactly
fn run_huge_periods(ctx: &Ctx) -> Report {
    let jobs = crate::common::huge_period_params();
    let seed = ctx.seed;
    par_run(jobs, ctx.threads, move |p, rep| {
        if !KINDS.contains(&p.kind) {
            return;
        }
        let mut rng = Rng::derive(seed, 0xC02E, p.p[0] as u64 ^ p.p[1] as u64);
        let xs = BandGen::new(BAND_REGIMES[rng.below(BAND_REGIMES.len())], 1.0, rng.u64()).take(300);
        let inputs: Vec<In> = xs.iter().map(|x| In::S(*x)).collect();
        run_stream(rep, "C02", "c02", p, &inputs, usize::MAX, 1, &judge);
        let bars = BarGen::new(BAR_STYLES[rng.below(BAR_STYLES.len())], 1.0, rng.u64()).take(300);
        let binputs: Vec<In> = bars.iter().map(|b| In::B(*b)).collect();
        run_stream(rep, "C02", "c02", p, &binputs, usize::MAX, 1, &judge);
        rep.count("huge_period_streams");
        rep.distinct_by_construction += 2;
    })
}

pub fn run(ctx: &Ctx) -> Report {
    let mut rep = Report::new();
    if ctx.phase_enabled("huge") {
        rep.merge(run_huge_periods(ctx));
    }
    if ctx.phase_enabled("soak") {
        rep.merge(run_soak(ctx));
    }
    if ctx.phase_enabled("scalar") {
        rep.merge(run_scalar(ctx));
    }
    if ctx.phase_enabled("bars") {
        rep.merge(run_bars(ctx));
    }
    if ctx.phase_enabled("enum") {
        rep.merge(run_enum(ctx));
    }
    if ctx.only.is_none() {
        for key in ["tr.first_bar", "tr.arm.high_minus_low", "tr.arm.high_vs_prev_close", "tr.arm.low_vs_prev_close", "macd.fast_eq_slow", "macd.fast_gt_slow", "period_1.alpha_is_1", "period_ge_512", "bar.streams_with_crossed_bars", "scalar.streams_near_f64_max", "enum.bar_sequences", "enum.scalar_sequences", "soak.long_streams"] {
            if rep.counters.get(key).copied().unwrap_or(0) == 0 {
                rep.inconclusive.push(format!("coverage floor missed: {} = 0", key));
            }
        }
    }
    rep
}
