//! C18 — state size and heap use depend on the parameters only, never on stream length.

use crate::alloc::{alloc_count, installed, live_bytes};
use crate::common::{replay_rerun, Ctx};
use crate::gen::{BandGen, BarGen, BarStyle, Regime};
use crate::inst::{Bar, In, Inst, Kind, Params, ALL_KINDS};
use crate::report::{par_run, Report};
use crate::rng::Rng;
use serde_json::json;

pub const RULE: &str = "All 22 indicators (multipliers incl. MIN_POSITIVE, 5e-324, f64::MAX, NaN) x periods {1,2,7,64,512} (+ sampled 1..=512) x stream shapes {strictly increasing, strictly decreasing, alternating, flat, random walk, uniform random, one NaN then non-increasing, +-inf then flat, finite values of magnitude 1e-300..1e300, a feed of recurring bad ticks (crossed bars, non-finite fields, both at once), all zeros, halts of doubling length, volumes of 5e14 per bar, outages of 1 500 NaN inputs} x scalar/bar feed: after a warm-up of n+2 inputs the thread-local live-heap counter of the harness's counting GlobalAlloc is read, N further inputs (10^5 quick - 1.1*10^6 for the period-7 random-walk runs - and 10^6 thorough) generated in place (no harness allocation in between) are fed, and it is read again: growth must be <= 256 + 64*sum(periods) bytes (allocation count in steady state reported). bincode::serialized_size is sampled at every step of the first 3n+10 inputs and at 64 checkpoints of the long run: always <= the same bound (constancy after the first input reported). A second phase repeats, on one instance per (indicator, period in {1,7,64,65,200,512}), R cycles of {feed n+5 inputs, reset} / {clone, drop} / {serialize, deserialize, swap} / {clone_from from a checkpoint instance}: live heap after the cycles must be within the same bound of live heap after the first cycle (a per-reset, per-clone or per-restore leak grows linearly). Non-trivial: every run (stream far longer than the window); distinct by construction (indicator, period, shape, feed).";

#[derive(Clone, Copy, Debug, PartialEq)]
pub enum Shape {
    Increasing,
    Decreasing,
    Alternating,
    Flat,
    Walk,
    Uniform,
    /// one NaN among the first inputs, then a non-increasing stream
    NanThenDecreasing,
    /// one +inf and one -inf among the first inputs, then flat
    InfThenFlat,
    /// finite values of any magnitude 1e-300..1e300 and sign (formats whose size depends on the value)
    WideMagnitude,
    /// a feed that keeps producing broken data: crossed bars (high < low), non-finite fields, bars that are
    /// both at once, NaN / inf / f64::MAX scalars — all the way through, not just at the start (anything
    /// an indicator might be tempted to remember about bad input)
    BadTicks,
    /// nothing but exact zeros (a series that has not started trading; also what an all-zero bar is)
    Zeros,
    /// halts of ever growing length: the price only changes when the input count is a power of two, so the
    /// longest run of identical inputs keeps doubling and each one ends
    Halts,
    /// a steadily rising close with volumes around 5e14 per bar (a cumulative volume that leaves the range
    /// in which f64 counts exactly after a few bars, and keeps going)
    HugeVolume,
    /// the feed drops out for 1 500 inputs in every 4 096 (NaN), then resumes
    Outages,
}
pub const SHAPES: [Shape; 14] = [Shape::Increasing, Shape::Decreasing, Shape::Alternating, Shape::Flat, Shape::Walk, Shape::Uniform, Shape::NanThenDecreasing, Shape::InfThenFlat, Shape::WideMagnitude, Shape::BadTicks, Shape::Zeros, Shape::Halts, Shape::HugeVolume, Shape::Outages];

pub struct ShapeGen {
    shape: Shape,
    i: u64,
    band: BandGen,
    bars: BarGen,
}
impl ShapeGen {
    pub fn new(shape: Shape, seed: u64) -> ShapeGen {
        ShapeGen { shape, i: 0, band: BandGen::new(if shape == Shape::Walk { Regime::Walk } else { Regime::Uniform }, 1.0, seed), bars: BarGen::new(BarStyle::Mixed, 1.0, seed) }
    }
    #[inline]
    pub fn next_price(&mut self) -> f64 {
        self.i += 1;
        match self.shape {
            Shape::Increasing => 100.0 + self.i as f64 * 0.25,
            Shape::Decreasing => 1e9 - self.i as f64 * 0.25,
            Shape::Alternating => {
                if self.i % 2 == 0 {
                    10.0
                } else {
                    20.0 + (self.i % 7) as f64
                }
            }
            Shape::Flat => 42.5,
            Shape::NanThenDecreasing => {
                if self.i == 3 {
                    f64::NAN
                } else if self.i % 3 == 0 {
                    1e9 - (self.i - 1) as f64 * 0.25 // repeats the previous value: non-increasing
                } else {
                    1e9 - self.i as f64 * 0.25
                }
            }
            Shape::WideMagnitude => {
                // deterministic, no allocation: magnitude cycles through 1e-300..1e300, sign alternates
                let e = ((self.i * 37) % 601) as i32 - 300;
                let m = 1.0 + ((self.i * 7919) % 1000) as f64 / 1000.0;
                let v = m * 10f64.powi(e);
                if self.i % 3 == 0 {
                    -v
                } else {
                    v
                }
            }
            Shape::Zeros => 0.0,
            Shape::Outages => if self.i > 100 && self.i % 4096 < 1500 { f64::NAN } else { 60.0 + ((self.i * 11) % 23) as f64 * 0.5 },
            Shape::HugeVolume => 100.0 + self.i as f64 * 0.125,
            Shape::Halts => 100.0 + (64 - self.i.leading_zeros()) as f64 * 0.25,
            Shape::BadTicks => {
                let base = 50.0 + ((self.i * 13) % 17) as f64;
                match self.i % 23 {
                    5 => f64::NAN,
                    9 => f64::INFINITY,
                    14 => f64::NEG_INFINITY,
                    19 => f64::MAX,
                    21 => -0.0,
                    _ => base,
                }
            }
            Shape::InfThenFlat => match self.i {
                2 => f64::INFINITY,
                4 => f64::NEG_INFINITY,
                _ => 42.5,
            },
            Shape::Walk | Shape::Uniform => self.band.next(),
        }
    }
    #[inline]
    pub fn next(&mut self, bars: bool) -> In {
        if !bars {
            return In::S(self.next_price());
        }
        match self.shape {
            Shape::Walk | Shape::Uniform => In::B(self.bars.next()),
            Shape::BadTicks => {
                self.i += 1;
                let c = 50.0 + ((self.i * 13) % 17) as f64;
                let good = Bar { o: c, h: c + 0.5, l: c - 0.25, c, v: 1.0 + (self.i % 5) as f64 };
                In::B(match self.i % 19 {
                    2 | 7 | 11 => Bar { h: good.l, l: good.h, ..good },          // crossed
                    4 => Bar { l: f64::INFINITY, ..good },                        // crossed and non-finite at once
                    9 => Bar { h: f64::NAN, ..good },
                    13 => Bar { c: f64::NEG_INFINITY, ..good },
                    16 => Bar { v: f64::NAN, l: f64::MAX, ..good },
                    _ => good,
                })
            }
            Shape::Zeros => {
                self.i += 1;
                In::B(Bar { o: 0.0, h: 0.0, l: 0.0, c: 0.0, v: 0.0 })
            }
            Shape::Halts => {
                let c = self.next_price();
                In::B(Bar { o: c, h: c, l: c, c, v: 100.0 })
            }
            Shape::HugeVolume => {
                let c = self.next_price();
                In::B(Bar { o: c, h: c + 0.5, l: c - 0.25, c, v: 5e14 + (self.i % 7) as f64 * 1e13 })
            }
            _ => {
                let c = self.next_price();
                In::B(Bar { o: c, h: c + 0.5, l: c - 0.25, c, v: 1.0 + (self.i % 5) as f64 })
            }
        }
    }
}

pub fn bound(p: &Params) -> u64 {
    256 + 64 * p.sum_periods() as u64
}

fn fail(rep: &mut Report, p: &Params, class: &str, detail: String, data: serde_json::Value) {
    let sig = format!("{}/c18.{}/exceeds_bound", p.kind.name(), class);
    if rep.is_new_sig(&sig) {
        rep.violation(sig.clone(), detail.clone(), replay_rerun("C18", &sig, &detail, data));
    } else {
        rep.violation_again(&sig);
    }
}

pub fn run_one(rep: &mut Report, p: &Params, shape: Shape, bars: bool, steps: usize, seed: u64) {
    let mut g = ShapeGen::new(shape, seed);
    let mut inst = Inst::new(p);
    let n = p.max_period();
    let b = bound(p);
    let data = json!({"params": p.to_json(), "shape": format!("{:?}", shape), "bars": bars, "steps": steps, "seed": seed.to_string()});
    // serialized size at every step of a short run
    let mut size_after_first = None;
    let mut constant = true;
    for i in 0..(3 * n + 10) {
        let x = g.next(bars);
        if inst.feed(&x).is_err() {
            return;
        }
        match inst.ser_size() {
            Ok(sz) => {
                rep.evaluations += 1;
                if i == 0 {
                    size_after_first = Some(sz);
                } else if Some(sz) != size_after_first {
                    constant = false;
                }
                if sz > b {
                    fail(rep, p, "serialized_size", format!("{} ({:?}, bars={}): serialized size {} bytes after {} inputs exceeds 256+64*sum(periods) = {}", p.label(), shape, bars, sz, i + 1, b), data.clone());
                    return;
                }
            }
            Err(_) => return,
        }
    }
    // heap: warm-up done (3n+10 >= n+2); measure across the long run
    let live0 = live_bytes();
    let allocs0 = alloc_count();
    let every = (steps / 64).max(1);
    let mut checkpoints_ok = true;
    let mut max_sz = 0u64;
    for i in 0..steps {
        let x = g.next(bars);
        if inst.feed(&x).is_err() {
            return;
        }
        if i % every == 0 {
            if let Ok(sz) = inst.ser_size() {
                rep.evaluations += 1;
                max_sz = max_sz.max(sz);
                if Some(sz) != size_after_first {
                    constant = false;
                }
                if sz > b {
                    checkpoints_ok = false;
                    fail(rep, p, "serialized_size", format!("{} ({:?}, bars={}): serialized size {} bytes after {} inputs exceeds {}", p.label(), shape, bars, sz, 3 * n + 10 + i + 1, b), data.clone());
                    break;
                }
            }
        }
    }
    let live1 = live_bytes();
    let allocs1 = alloc_count();
    if !checkpoints_ok {
        return;
    }
    let growth = live1 - live0;
    rep.evaluations += 1;
    rep.ratio(&format!("c18.heap_growth.{}", p.kind.name()), growth.max(0) as f64 / b as f64);
    rep.add("steady_state_allocations_observed", allocs1 - allocs0);
    if growth > b as i64 {
        fail(rep, p, "heap_growth", format!("{} ({:?}, bars={}): live heap grew by {} bytes over {} inputs after warm-up (bound {})", p.label(), shape, bars, growth, steps, b), data);
        return;
    }
    rep.count(if constant { "serialized_size_constant_after_first_input" } else { "serialized_size_varied_within_bound" });
    rep.count("runs");
    rep.distinct_by_construction += 1;
    if rep.wants_sample() && p.p[0] == 7 {
        rep.sample(json!({"indicator": p.label(), "shape": format!("{:?}", shape), "bars": bars, "inputs": steps, "serialized_size": size_after_first, "bound": b, "heap_growth_bytes": growth, "allocations_in_steady_state": allocs1 - allocs0}));
    }
}

/// repeated reset / clone-drop / serde-swap cycles on one instance: heap must not grow per cycle
pub fn run_cycles(rep: &mut Report, p: &Params, bars: bool, cycles: usize, seed: u64) {
    // mixed cycles, then each kind on its own (a per-kind leak or a window that grows with every clone /
    // restore is diluted when the kinds alternate)
    for mode in 0..5usize {
        run_cycles_mode(rep, p, bars, if mode == 0 { cycles } else { cycles / 3 + 8 }, seed ^ mode as u64, mode);
    }
}

/// mode 0: reset / clone / serde alternate; 1: reset only; 2: clone only; 3: serde only; 4: rewind — the working
/// instance is overwritten with clone_from from a checkpoint instance taken after the first feed. The number of
/// inputs between two cycle ends follows (n+5)*2^(k mod 7): a structure that doubles whenever it is
/// copied needs ever longer feeds to keep growing.
pub fn run_cycles_mode(rep: &mut Report, p: &Params, bars: bool, cycles: usize, seed: u64, mode: usize) {
    let mut g = ShapeGen::new(Shape::Walk, seed);
    let mut inst = Inst::new(p);
    let n = p.max_period();
    let b = bound(p);
    let mut checkpoint: Option<Inst> = None;
    let mut one_cycle = |inst: &mut Inst, g: &mut ShapeGen, k: usize| -> bool {
        let feed = if mode == 0 { n + 5 } else { (n.min(64) + 5) << (k % 7) };
        for _ in 0..feed {
            let x = g.next(bars);
            if inst.feed(&x).is_err() {
                return false;
            }
        }
        if mode == 4 {
            if checkpoint.is_none() {
                checkpoint = inst.try_clone().ok();
            }
            return match checkpoint.as_ref() {
                Some(cp) => inst.assign_from(cp).is_ok(),
                None => false,
            };
        }
        match if mode == 0 { k % 3 } else { mode - 1 } {
            0 => inst.reset().is_ok(),
            1 => match inst.try_clone() {
                Ok(c) => {
                    // keep the clone, drop the original
                    *inst = c;
                    true
                }
                Err(_) => false,
            },
            _ => inst.serde_swap().is_ok(),
        }
    };
    // first cycles of each kind establish the baseline (allocator slack, lazily created buffers)
    for k in 0..if mode == 0 { 3 } else { 1 } {
        if !one_cycle(&mut inst, &mut g, k) {
            return;
        }
    }
    let live0 = live_bytes();
    for k in 0..cycles {
        if !one_cycle(&mut inst, &mut g, k) {
            return;
        }
    }
    let growth = live_bytes() - live0;
    rep.evaluations += 1;
    rep.ratio(&format!("c18.cycle_growth.{}", p.kind.name()), growth.max(0) as f64 / b as f64);
    if growth > b as i64 {
        fail(rep, p, "heap_growth_per_cycle", format!("{} (bars={}): live heap grew by {} bytes over {} {} cycles (bound {})", p.label(), bars, growth, cycles, ["reset/clone/serde", "reset", "clone", "serde", "clone_from-rewind"][mode], b),
             json!({"params": p.to_json(), "cycles": cycles, "bars": bars, "seed": seed.to_string()}));
        return;
    }
    rep.count("cycles.runs");
    rep.distinct_by_construction += 1;
}

pub fn run(ctx: &Ctx) -> Report {
    if !installed() {
        let mut r = Report::new();
        r.inconclusive.push("counting allocator is not installed in this process".into());
        return r;
    }
    let steps = ctx.pick(100_000usize, 1_000_000usize);
    let mut jobs = Vec::new();
    let mut rng = Rng::derive(ctx.seed, 0xC18, 0);
    let mut idx = 0u64;
    for kind in ALL_KINDS {
        let mut periods: Vec<usize> = if kind.n_periods() == 0 { vec![1] } else { vec![1, 2, 7, 64, 512] };
        if kind.n_periods() > 0 {
            for _ in 0..ctx.pick(1, 6) {
                periods.push(rng.range(1, 512));
            }
        }
        for n in periods {
            for (si, shape) in SHAPES.iter().enumerate() {
                for bars in [false, true] {
                    if !bars && !kind.has_scalar() {
                        continue;
                    }
                    idx += 1;
                    // quick: a systematic half of the shape x feed grid per period
                    if ctx.quick() && (idx + si as u64) % 2 == 0 && n != 7 {
                        continue;
                    }
                    jobs.push((kind, n, *shape, bars, idx));
                }
            }
        }
    }
    // MAD/CCI are O(n) per input: cut their long runs for the largest windows
    let seed = ctx.seed;
    let mut rep = par_run(jobs, ctx.threads, move |(kind, n, shape, bars, idx), rep| {
        let mut p = Params::new1(*kind, *n);
        match kind {
            Kind::Macd | Kind::Ppo => p.p = [*n, *n + 3, (*n / 2).max(1)],
            Kind::Slow => p.p = [*n, 3, 0],
            // "a bound determined by its parameters alone" is 256 + 64 * periods whatever the multiplier: also
            // ones that print with hundreds of digits
            Kind::Bb | Kind::Kc | Kind::Ce => p.k = [2.0, f64::MIN_POSITIVE, 0.5, 5e-324, -3.0, f64::MAX, 1e-300, f64::NAN][(*idx % 8) as usize],
            _ => {}
        }
        let st = if *n >= 64 && matches!(kind, Kind::Mad | Kind::Cci | Kind::Er) { steps / 4 } else if *n == 7 && *shape == Shape::Walk { steps.max(1_100_000) } else { steps };
        run_one(rep, &p, *shape, *bars, st, seed ^ idx.wrapping_mul(0x9E3779B97F4A7C15));
        rep.count(&format!("shape.{:?}", shape));
    });
    // cycles phase
    let mut cjobs = Vec::new();
    for kind in ALL_KINDS {
        let periods: Vec<usize> = if kind.n_periods() == 0 { vec![1] } else { vec![1, 7, 64, 65, 200, 512] };
        for n in periods {
            for bars in [false, true] {
                if !bars && !kind.has_scalar() {
                    continue;
                }
                cjobs.push((kind, n, bars));
            }
        }
    }
    let cycles = ctx.pick(300usize, 3000usize);
    rep.merge(par_run(cjobs, ctx.threads, move |(kind, n, bars), rep| {
        let mut p = Params::new1(*kind, *n);
        match kind {
            Kind::Macd | Kind::Ppo => p.p = [*n, *n + 3, (*n / 2).max(1)],
            Kind::Slow => p.p = [*n, 3, 0],
            Kind::Bb | Kind::Kc | Kind::Ce => p.k = 2.0,
            _ => {}
        }
        let cy = if *n >= 200 { cycles / 4 } else { cycles };
        run_cycles(rep, &p, *bars, cy, seed ^ (*n as u64 * 31 + *kind as u64));
    }));
    rep.notes.push(format!("inputs per long run: {}", steps));
    if ctx.only.is_none() {
        for key in ["runs", "shape.Increasing", "shape.Decreasing", "shape.Alternating", "shape.Flat", "shape.Walk", "shape.Uniform", "shape.NanThenDecreasing", "shape.InfThenFlat", "shape.WideMagnitude", "cycles.runs"] {
            if rep.counters.get(key).copied().unwrap_or(0) == 0 {
                rep.inconclusive.push(format!("coverage floor missed: {} = 0", key));
            }
        }
    }
    rep
}
