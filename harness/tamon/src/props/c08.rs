//! C08 — flat or zero-flow windows give finite, neutral outputs — never NaN or garbage.

use crate::common::{ops_json, panic_violation, Ctx};
use crate::gen::{BandGen, BarGen, BarStyle, Regime};
use crate::inst::{hexf, Bar, In, Inst, Kind, Params, ALL_KINDS};
use crate::refmodel::{tau, RefModel, EPS};
use crate::report::{par_run, Report};
use crate::rng::Rng;
use serde_json::json;

pub const RULE: &str = "All 22 indicators, periods 1..=8 for every (prefix kind x level x feed form) combination plus sampled larger periods: an active prefix (none = stream start, after-reset, 1..n+2 bars then reset, activity 1.7e5 x the level then reset, for the window-only indicators MIN/MAX/FAST/ROC/ER/TR also NaN, inf and unrepresentable-swing ticks, random walk, spikes 1e6x the level, alternating decades) followed by flat stretches (all price fields equal; lengths 3n+3, 100, 1100, 5000) at levels {1e-3,0.1,1,37.5,1e6,-37.5,-1e-3,0 (0 not for ROC/PPO)} plus four seeded levels per combination (two- and four-decimal prices, arbitrary doubles of either sign in 1e-3..1e6), and for bars also zero-volume stretches with moving prices. The instance is cloned / restored from bytes / clone_from-assigned at the start of a stretch and again inside it. Judged at every step of a stretch at which the harness's own copy of the window is degenerate (all n, or n+1 for ROC/ER/MFI, prices equal, or zero money flow), and at every step of the stretch for the EMA-based indicators: output finite and inside the documented range; exactly 50 (FAST), 0 (CCI, ROC, TR); MAD <= tau(t)*M; SD <= sqrt(tau(t))*M; BB bands within |k|*sqrt(tau(t))*M of the average. Non-trivial: a stretch preceded by activity (or at stream start / after reset) with >= 1 degenerate-window step; distinct by construction (combination index) .";

/// flat price levels: positive ones of several magnitudes, two negative ones (spreads, de-meaned series)
/// and exactly zero (the latter not for ROC and PPO, whose formula divides by the price level itself)
pub const LEVELS: [f64; 8] = [1e-3, 0.1, 1.0, 37.5, 1e6, -37.5, -1e-3, 0.0];
/// plus seeded levels per scenario ("every flat price level"): whether x - x, x / x or 100 * x / x come out
/// exact depends on the bits of x, so round levels alone say little
pub const SEEDED_LEVEL_CLASSES: usize = 4;

pub fn seeded_level(class: usize, rng: &mut Rng) -> f64 {
    match class {
        0 => (rng.range(1, 100_000) as f64) / 100.0,          // a two-decimal price 0.01 ..= 1000.00
        1 => rng.log_uniform(1e-3, 1e6),                      // any double in the band
        2 => -rng.log_uniform(1e-3, 1e6),
        _ => (rng.range(1, 1_000_000) as f64) / 10_000.0,     // four decimals (FX quotes)
    }
}

#[derive(Clone, Copy, Debug, PartialEq)]
pub enum Prefix {
    None,
    AfterReset,
    Walk,
    Spikes,
    AltDecades,
    Short(usize),
    /// a few bars (fewer than, equal to or just above the period), then reset(): the stretch starts a new
    /// stream on an instance whose window was only partly written
    ShortReset,
    /// activity five decades above the level, then reset(): whatever the reset leaves in place (a running
    /// mean, say) is huge next to the stream that follows
    BigThenReset,
    /// ordinary activity containing a NaN tick, an infinite tick and a finite swing whose size is not
    /// representable (1e308 to -1e308). Only for the indicators that keep nothing but their window (MIN, MAX,
    /// FAST, ROC, ER, TR): for them "after arbitrary earlier activity" includes this, since whatever left
    /// the window is gone; an accumulating indicator legitimately stays poisoned by a NaN (C12 asks it to
    /// return, not to recover).
    Poison,
}

pub fn window_only(kind: Kind) -> bool {
    matches!(kind, Kind::Min | Kind::Max | Kind::Fast | Kind::Roc | Kind::Er | Kind::Tr)
}

fn doc_range(kind: Kind) -> Option<(f64, f64)> {
    match kind {
        Kind::Rsi | Kind::Fast | Kind::Slow | Kind::Mfi => Some((0.0, 100.0)),
        Kind::Er => Some((0.0, 1.0)),
        _ => None,
    }
}

fn ema_based(kind: Kind) -> bool {
    matches!(kind, Kind::Ema | Kind::Atr | Kind::Macd | Kind::Kc | Kind::Ce | Kind::Rsi | Kind::Slow | Kind::Ppo | Kind::Obv)
}

pub fn variant(kind: Kind, n: usize, alt: usize) -> Params {
    let mut p = Params::new1(kind, n);
    match kind {
        Kind::Macd | Kind::Ppo => p.p = [n, n + 2 + alt, (n + 1) / 2 + 1],
        Kind::Slow => p.p = [n, (n + alt) % 3 + 1, 0],
        Kind::Bb | Kind::Kc | Kind::Ce => p.k = [2.0, 0.0, 0.5, 3.0, 10.0][(n + alt) % 5],
        _ => {}
    }
    p
}

/// a stream = prefix, then (stretch, activity)*, recorded with a flag per input: inside a stretch?
pub struct Scenario {
    pub inputs: Vec<In>,
    pub in_stretch: Vec<bool>,
    pub reset_at: Option<usize>,
}

pub fn build(p: &Params, bars: bool, prefix: Prefix, level: f64, zero_volume_stretch: bool, long: usize, rng: &mut Rng) -> Scenario {
    let n = p.max_period();
    let mut inputs = Vec::new();
    let mut flags = Vec::new();
    let mut reset_at = None;
    let mk_active = |rng: &mut Rng, len: usize, scale: f64, inputs: &mut Vec<In>, flags: &mut Vec<bool>, spikes: bool, alt: bool| {
        if bars {
            let mut g = BarGen::new(BarStyle::Mixed, scale / 30.0, rng.u64());
            for i in 0..len {
                let mut b = g.next();
                if spikes && i % 5 == 2 {
                    b = b.scale_prices(1e6);
                }
                if alt && i % 2 == 1 {
                    b = b.scale_prices(1e-4);
                }
                inputs.push(In::B(b));
                flags.push(false);
            }
        } else {
            let mut g = BandGen::new(Regime::Walk, scale / 30.0, rng.u64());
            for i in 0..len {
                let mut x = g.next();
                if spikes && i % 5 == 2 {
                    x *= 1e6;
                }
                if alt && i % 2 == 1 {
                    x *= 1e-4;
                }
                inputs.push(In::S(x));
                flags.push(false);
            }
        }
    };
    // activity around the level: its scale is |level| (1 for the zero level); negative levels get
    // negated activity so the stream stays on one side of zero
    let (level_scale, sign) = if level == 0.0 { (1.0, 1.0) } else { (level.abs(), level.signum()) };
    let mk_active = |rng: &mut Rng, len: usize, _scale: f64, inputs: &mut Vec<In>, flags: &mut Vec<bool>, spikes: bool, alt: bool| {
        let start = inputs.len();
        mk_active(rng, len, level_scale, inputs, flags, spikes, alt);
        if sign < 0.0 {
            for x in inputs[start..].iter_mut() {
                *x = match x {
                    In::S(v) => In::S(-*v),
                    In::B(b) => In::B(Bar { o: -b.o, h: -b.l, l: -b.h, c: -b.c, v: b.v }),
                };
            }
        }
    };
    let plen = 2 * n + 3 + rng.below(2 * n + 2);
    match prefix {
        Prefix::None => {}
        Prefix::AfterReset => {
            mk_active(rng, plen, level, &mut inputs, &mut flags, false, false);
            reset_at = Some(inputs.len());
        }
        Prefix::Walk => mk_active(rng, plen, level, &mut inputs, &mut flags, false, false),
        Prefix::Spikes => mk_active(rng, plen, level, &mut inputs, &mut flags, true, false),
        Prefix::AltDecades => mk_active(rng, plen, level, &mut inputs, &mut flags, false, true),
        Prefix::Short(k) => mk_active(rng, k, level, &mut inputs, &mut flags, false, false),
        Prefix::Poison => {
            mk_active(rng, plen, level, &mut inputs, &mut flags, false, false);
            let poison = [f64::NAN, 1e308, -1e308, f64::INFINITY, f64::NEG_INFINITY, f64::MAX];
            let k = rng.below(poison.len());
            for j in 0..(1 + rng.below(3)) {
                let v = poison[(k + j) % poison.len()];
                inputs.push(if bars { In::B(Bar { o: v, h: v, l: v, c: v, v: 1.0 }) } else { In::S(v) });
                flags.push(false);
            }
            let tail = rng.below(n + 2);
            mk_active(rng, tail, level, &mut inputs, &mut flags, false, false);
        }
        Prefix::BigThenReset => {
            let start = inputs.len();
            mk_active(rng, plen, level, &mut inputs, &mut flags, false, false);
            for x in inputs[start..].iter_mut() {
                *x = match x {
                    In::S(v) => In::S(*v * 1.7e5),
                    In::B(b) => In::B(Bar { v: b.v, ..b.scale_prices(1.7e5) }),
                };
            }
            reset_at = Some(inputs.len());
        }
        Prefix::ShortReset => {
            let k = 1 + rng.below(n + 2);
            mk_active(rng, k, level, &mut inputs, &mut flags, false, false);
            reset_at = Some(inputs.len());
        }
    }
    let stretch = |len: usize, inputs: &mut Vec<In>, flags: &mut Vec<bool>, rng: &mut Rng| {
        if zero_volume_stretch && bars {
            // moving prices, no volume: no money flow in the window
            let mut g = BarGen::new(BarStyle::Mixed, level_scale / 30.0, rng.u64());
            for _ in 0..len {
                let b = g.next();
                let b = if sign < 0.0 { Bar { o: -b.o, h: -b.l, l: -b.h, c: -b.c, v: b.v } } else { b };
                inputs.push(In::B(Bar { v: 0.0, ..b }));
                flags.push(true);
            }
        } else {
            let vol = if rng.chance(0.3) { 0.0 } else { rng.log_uniform(1e-2, 1e5) };
            for _ in 0..len {
                inputs.push(if bars { In::B(Bar::flat(level, vol)) } else { In::S(level) });
                flags.push(true);
            }
        }
    };
    stretch(3 * n + 3, &mut inputs, &mut flags, rng);
    mk_active(rng, n + 2, level, &mut inputs, &mut flags, false, false);
    stretch(long, &mut inputs, &mut flags, rng);
    Scenario { inputs, in_stretch: flags, reset_at }
}

fn violation(rep: &mut Report, p: &Params, class: &str, tag: &str, detail: String, sc: &Scenario, upto: usize, comp: usize, lo: f64, hi: f64) {
    let sig = format!("{}/c08.{}/{}", p.kind.name(), class, tag);
    if rep.is_new_sig(&sig) {
        let mut ops: Vec<serde_json::Value> = Vec::new();
        for (i, x) in sc.inputs[..=upto].iter().enumerate() {
            if sc.reset_at == Some(i) {
                ops.push(json!({"op": "reset"}));
            }
            ops.push(x.to_json());
        }
        let replay = json!({"property": "C08", "sig": sig, "programs": [{"params": p.to_json(), "ops": ops}],
            "check": {"type": "range", "component": comp, "lo": hexf(lo), "hi": hexf(hi)}, "detail": detail});
        rep.violation(sig, detail, replay);
    } else {
        rep.violation_again(&sig);
    }
}

/// returns number of degenerate-window steps judged
pub fn run_scenario(rep: &mut Report, p: &Params, sc: &Scenario, tag: &str) -> usize {
    let mut inst = Inst::new(p);
    let mut rm = RefModel::new(p);
    let mut judged = 0;
    let kind = p.kind;
    let mut stretch_start = 0usize;
    for (i, x) in sc.inputs.iter().enumerate() {
        if sc.reset_at == Some(i) {
            let _ = inst.reset();
            rm.reset();
        }
        if i > 0 && sc.in_stretch[i] && !sc.in_stretch[i - 1] {
            stretch_start = i;
            if i % 2 == 0 {
                inst.perturb(i / 2); // clone- or serde-swap right where a flat stretch begins
            }
        }
        // ... and again inside the stretch, once the window is flat already (a copy restored there must
        // not depend on anything but the window either)
        if sc.in_stretch[i] && i > stretch_start && i - stretch_start == p.max_period() + 1 + stretch_start % (p.max_period() + 1) {
            inst.perturb(stretch_start + 1);
            rep.count("restores_inside_a_flat_stretch");
        }
        let r = rm.push(x);
        let out = match inst.feed(x) {
            Ok(o) => o,
            Err(pn) => {
                panic_violation(rep, "C08", "c08", p, ops_json(&sc.inputs[..=i]), &pn.0);
                return judged;
            }
        };
        if !sc.in_stretch[i] {
            continue;
        }
        let t = r.t;
        let flat = rm.window_flat();
        let zero_flow = kind == Kind::Mfi && r.degenerate;
        let tr_flat = kind == Kind::Tr && {
            // current bar flat and (no previous close or previous close equal)
            let w = &rm.w;
            match x {
                In::B(b) => b.h == b.l && (w.len() < 2 || w[w.len() - 2] == b.h),
                In::S(s) => w.len() >= 2 && w[w.len() - 2] == *s,
            }
        };
        let degenerate = match kind {
            Kind::Mfi => zero_flow || flat,
            Kind::Tr => tr_flat,
            Kind::Obv => true,
            _ => flat,
        };
        if !(degenerate || ema_based(kind)) {
            rep.count("stretch_steps_window_not_yet_degenerate");
            continue;
        }
        judged += 1;
        rep.evaluations += 1;
        if degenerate {
            rep.count("degenerate_window_steps");
        } else {
            rep.count("ema_based_stretch_steps");
        }
        let m = r.m;
        let tq = tau(t);
        // finite, inside documented range
        for c in 0..out.n {
            let v = out.v[c];
            if !v.is_finite() {
                let class = if v.is_nan() { "nan" } else { "inf" };
                violation(rep, p, &format!("finite.{}", class), tag, format!("{} t={} ({} steps into a flat/zero-flow stretch): component {} is {}", p.label(), t, sc.in_stretch[..=i].iter().rev().take_while(|f| **f).count(), kind.out_names()[c], v), sc, i, c, f64::MIN, f64::MAX);
                return judged;
            }
        }
        if let Some((lo, hi)) = doc_range(kind) {
            let v = out.v[0];
            if !(v >= lo - 1e-9 && v <= hi + 1e-9) {
                violation(rep, p, "range", tag, format!("{} t={}: {} outside documented range [{}, {}] on a degenerate window", p.label(), t, v, lo, hi), sc, i, 0, lo - 1e-9, hi + 1e-9);
                return judged;
            }
        }
        if !degenerate {
            continue;
        }
        // neutral values
        let exact = match kind {
            Kind::Fast => Some(50.0),
            Kind::Cci | Kind::Roc | Kind::Tr => Some(0.0),
            _ => None,
        };
        if let Some(e) = exact {
            rep.count("neutral_exact_checked");
            if out.v[0] != e {
                violation(rep, p, "neutral", tag, format!("{} t={}: {:e} on a degenerate window, documented neutral value is exactly {}", p.label(), t, out.v[0], e), sc, i, 0, e, e);
                return judged;
            }
        }
        match kind {
            Kind::Mad => {
                let tol = tq * m;
                rep.ratio("c08.MAD.zero", out.v[0].abs() / tol);
                if !(out.v[0].abs() <= tol) {
                    violation(rep, p, "neutral", tag, format!("{} t={}: MAD {:e} on a flat window exceeds tau(t)*M = {:e}", p.label(), t, out.v[0], tol), sc, i, 0, -tol, tol);
                    return judged;
                }
            }
            Kind::Sd => {
                let tol = tq.sqrt() * m;
                rep.ratio("c08.SD.zero", out.v[0].abs() / tol);
                if !(out.v[0].abs() <= tol) {
                    violation(rep, p, "neutral", tag, format!("{} t={}: SD {:e} on a flat window exceeds sqrt(tau(t))*M = {:e}", p.label(), t, out.v[0], tol), sc, i, 0, -tol, tol);
                    return judged;
                }
            }
            Kind::Bb => {
                let tol = p.k.abs() * tq.sqrt() * m + 4.0 * EPS * m;
                let du = (out.v[1] - out.v[0]).abs();
                let dl = (out.v[0] - out.v[2]).abs();
                rep.ratio("c08.BB.collapse", du.max(dl) / tol);
                if !(du <= tol && dl <= tol) {
                    violation(rep, p, "neutral", tag, format!("{} t={}: bands {:e}/{:e} away from the average on a flat window, allowed {:e}", p.label(), t, du, dl, tol), sc, i, 1, out.v[0] - tol, out.v[0] + tol);
                    return judged;
                }
            }
            _ => {}
        }
        if rep.wants_sample() && judged == 5 {
            rep.sample(json!({"indicator": p.label(), "t": t, "input": x.to_json(), "observed": out.to_json(), "window_flat": flat, "zero_flow": zero_flow, "tag": tag}));
        }
    }
    judged
}

pub fn run(ctx: &Ctx) -> Report {
    let mut jobs = Vec::new();
    let prefixes = [Prefix::None, Prefix::AfterReset, Prefix::Walk, Prefix::Spikes, Prefix::AltDecades, Prefix::Short(1), Prefix::Short(2), Prefix::ShortReset, Prefix::Poison, Prefix::BigThenReset];
    let big: &[usize] = if ctx.quick() { &[14, 50] } else { &[14, 50, 200, 512] };
    let mut idx = 0u64;
    let reps = ctx.pick(3, 60);
    for kind in ALL_KINDS {
        let mut periods: Vec<usize> = if kind.n_periods() == 0 { vec![1] } else { (1..=8).collect() };
        if kind.n_periods() > 0 {
            periods.extend_from_slice(big);
        }
        for n in periods {
            for (pi, prefix) in prefixes.iter().enumerate() {
                if *prefix == Prefix::Poison && !window_only(kind) {
                    continue;
                }
                for li in 0..LEVELS.len() + SEEDED_LEVEL_CLASSES {
                    let level = LEVELS.get(li).copied();
                    if level == Some(0.0) && matches!(kind, Kind::Roc | Kind::Ppo) {
                        continue;
                    }
                    for bars in [false, true] {
                        if !bars && !kind.has_scalar() {
                            continue;
                        }
                        for _rep in 0..reps {
                            idx += 1;
                            jobs.push((kind, n, *prefix, level, li, bars, idx, pi + li));
                        }
                    }
                }
            }
        }
    }
    let seed = ctx.seed;
    let thorough = !ctx.quick();
    let mut rep = par_run(jobs, ctx.threads, move |(kind, n, prefix, level, li, bars, idx, alt), rep| {
        let mut rng = Rng::derive(seed, 0xC08, *idx);
        let level = match level {
            Some(l) => *l,
            None => {
                rep.count("seeded_levels");
                seeded_level(*li - LEVELS.len(), &mut rng)
            }
        };
        let level = &level;
        let p = variant(*kind, *n, *alt);
        // long stretch: long enough for 0.1*(1-alpha)^t to underflow for small n
        let long = match (*idx % 4, *n <= 8) {
            (0, true) => 5000,
            (1, _) => 1100,
            _ => 100,
        };
        let long = if thorough && *n <= 3 { 5000 } else { long };
        let zero_vol = *bars && kind.reads_volume() && *idx % 2 == 0;
        let sc = build(&p, *bars, *prefix, *level, zero_vol, long, &mut rng);
        let tag = format!("{}", match prefix {
            Prefix::None => "stream_start",
            Prefix::AfterReset => "after_reset",
            Prefix::Walk => "after_walk",
            Prefix::Spikes => "after_spikes",
            Prefix::AltDecades => "after_alt_decades",
            Prefix::Short(_) => "after_short_prefix",
            Prefix::ShortReset => "after_short_prefix_and_reset",
            Prefix::BigThenReset => "after_reset_from_a_much_higher_level",
            Prefix::Poison => "after_nonfinite_or_overflowing_ticks",
        });
        let tag = if zero_vol { format!("{}.zero_volume", tag) } else { tag };
        let j = run_scenario(rep, &p, &sc, &tag);
        rep.count("scenarios");
        rep.count(&format!("prefix.{}", tag));
        if j > 0 {
            rep.distinct_by_construction += 1;
        }
        if long >= 5000 {
            rep.count("stretches_ge_5000");
        }
    });
    if ctx.only.is_none() {
        for key in ["degenerate_window_steps", "ema_based_stretch_steps", "neutral_exact_checked", "stretches_ge_5000", "prefix.after_spikes", "prefix.stream_start", "prefix.after_reset", "prefix.after_short_prefix_and_reset", "prefix.after_nonfinite_or_overflowing_ticks", "restores_inside_a_flat_stretch", "seeded_levels"] {
            if rep.counters.get(key).copied().unwrap_or(0) == 0 {
                rep.inconclusive.push(format!("coverage floor missed: {} = 0", key));
            }
        }
    }
    rep
}
