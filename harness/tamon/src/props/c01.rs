//! C01 — sliding-window statistics equal the textbook value of exactly the last n inputs.

use crate::common::{scalars_json, Ctx};
use crate::gen::{rand_period, rand_stream, BandGen, BAND_REGIMES, RAND_KINDS};
use crate::inst::{In, Inst, Kind, Out, Params};
use crate::oracles::{settle, window_judgements, Judgements};
use crate::refmodel::{RefModel, RefOut};
use crate::report::{hash_f64s, par_run, Report};
use crate::rng::Rng;
use crate::stream::run_stream;
use serde_json::json;

pub const KINDS: [Kind; 7] = [Kind::Sma, Kind::Wma, Kind::Sd, Kind::Mad, Kind::Min, Kind::Max, Kind::Bb];
pub const A5: [f64; 5] = [-2.0, 0.0, 1.0, 1.0 + f64::EPSILON, 3.5];
pub const MULTS: [f64; 9] = [0.0, 0.5, 1.0, 2.0, 2.5, 10.0, -1.5, 2.1, 0.1];

pub const RULE: &str = "ENUM: every sequence of length 1..=d over A5={-2,0,1,1+2^-52,3.5} for periods 1..=5 and each of SMA/WMA/SD/MAD/MIN/MAX/BB, replayed from a fresh instance, last output judged (so every prefix is judged once); RAND/REGIME: seeded streams, every step judged. A case (indicator, period, sequence/stream) is non-trivial when the stream is longer than the period (the ring buffer wrapped) and holds >= 2 distinct values; ENUM cases are distinct by construction, random ones by hash of (indicator, params, stream).";

fn judge(p: &Params, out: &Out, r: &RefOut, js: &mut Judgements) -> usize {
    window_judgements(p, out, r, r.t, r.m, js);
    0
}

struct EnumJob {
    kind: Kind,
    n: usize,
    a: usize,
    b: usize,
    depth: usize,
}

fn enum_visit(job: &EnumJob, p: &Params, seq: &mut Vec<f64>, rep: &mut Report, js: &mut Judgements) {
    // replay from a fresh instance (no reliance on Clone)
    let mut inst = Inst::new(p);
    let mut last = None;
    for (i, x) in seq.iter().enumerate() {
        match inst.next_f64(*x) {
            Ok(o) => last = Some(o),
            Err(pn) => {
                crate::common::panic_violation(rep, "C01", "c01", p, scalars_json(&seq[..=i]), &pn.0);
                return;
            }
        }
    }
    let out = last.unwrap();
    let mut rm = RefModel::new(p);
    for x in &seq[..seq.len() - 1] {
        rm.push_quiet(*x);
    }
    let r = rm.push(&In::S(*seq.last().unwrap()));
    js.clear();
    judge(p, &out, &r, js);
    let t = seq.len();
    let n = job.n;
    let ph = crate::common::phase(t, n);
    settle(rep, "C01", "c01", p, ph, t, js, &mut || scalars_json(seq));
    // coverage
    rep.count(match ph {
        "warmup" => "enum.phase.warmup",
        "full" => "enum.phase.exactly_full",
        "wrapped1" => "enum.phase.wrapped_once",
        _ => "enum.phase.wrapped_twice_or_more",
    });
    let w = &seq[t.saturating_sub(n)..];
    let mut distinct = false;
    let mut tie = false;
    for i in 0..w.len() {
        for k in i + 1..w.len() {
            if w[i] == w[k] {
                tie = true;
            } else {
                distinct = true;
            }
        }
    }
    if tie {
        rep.count("enum.window_has_tie");
    }
    if t > n {
        let ev = seq[t - n - 1];
        let mx = w.iter().cloned().fold(f64::NEG_INFINITY, f64::max);
        let mn = w.iter().cloned().fold(f64::INFINITY, f64::min);
        if ev > mx || ev < mn {
            rep.count("enum.evicted_value_was_strict_extreme");
        }
        if seq.iter().any(|x| *x != seq[0]) {
            rep.distinct_by_construction += 1;
        }
    }
    if distinct && w.iter().any(|x| *x < 0.0) && w.iter().any(|x| *x > 0.0) {
        rep.count("enum.window_mixed_sign");
    }
    if rep.wants_sample() && t == job.depth && job.a == 0 && job.b == 4 {
        rep.sample(json!({"phase": "enum", "indicator": p.label(), "sequence": seq.clone(), "observed": out.to_json(),
            "reference": js.iter().map(|q| format!("{}={:e} tol={:e}", q.name, q.reference.to_f64(), q.tol)).collect::<Vec<_>>()}));
    }
    if t < job.depth {
        for s in A5 {
            seq.push(s);
            enum_visit(job, p, seq, rep, js);
            seq.pop();
        }
    }
}

fn run_enum(ctx: &Ctx) -> Report {
    let depth = ctx.pick(8, 10);
    let mut jobs = Vec::new();
    for kind in KINDS {
        for n in 1..=5usize {
            for a in 0..5 {
                for b in 0..5 {
                    jobs.push(EnumJob { kind, n, a, b, depth });
                }
            }
        }
    }
    let mut rep = par_run(jobs, ctx.threads, |job, rep| {
        let mut p = Params::new1(job.kind, job.n);
        if job.kind == Kind::Bb {
            p.k = MULTS[(job.a * 5 + job.b) % MULTS.len()];
        }
        let mut js = Vec::with_capacity(4);
        if job.b == 0 {
            let mut seq = vec![A5[job.a]];
            let j1 = EnumJob { kind: job.kind, n: job.n, a: job.a, b: job.b, depth: 1 };
            enum_visit(&j1, &p, &mut seq, rep, &mut js);
        }
        let mut seq = vec![A5[job.a], A5[job.b]];
        enum_visit(job, &p, &mut seq, rep, &mut js);
    });
    rep.add("enum.depth", 0);
    rep.notes.push(format!("enum: depth {} over A5, periods 1..=5, 7 indicators, exhaustive", depth));
    rep
}

struct RandJob {
    idx: usize,
    seed: u64,
}

fn run_rand(ctx: &Ctx) -> Report {
    let njobs = ctx.pick(1600, 24000);
    let jobs: Vec<RandJob> = (0..njobs).map(|i| RandJob { idx: i, seed: ctx.seed }).collect();
    let budget = ctx.pick(1_500_000usize, 6_000_000usize); // len * period cap per stream
    par_run(jobs, ctx.threads, move |job, rep| {
        let mut rng = Rng::derive(job.seed, 0xC01, job.idx as u64);
        let rk = RAND_KINDS[job.idx % RAND_KINDS.len()];
        let mut len = match rng.below(4) {
            0 => rng.range(50, 200),
            1 => rng.range(200, 2000),
            _ => rng.range(2000, 20000),
        };
        let n = rand_period(&mut rng, 1024, len);
        if n * len > budget {
            len = (budget / n).max(3 * n + 3);
        }
        // small periods: make sure the buffer wraps >= 300 times
        if n <= 8 {
            len = len.max(300 * n);
        }
        let xs = rand_stream(rk, len, &mut rng);
        let inputs: Vec<In> = xs.iter().map(|x| In::S(*x)).collect();
        // one job in eight runs the documented default configurations (built through Default::default())
        let defaults = rng.below(8) == 0;
        for kind in KINDS {
            let mut p = Params::new1(kind, n);
            if kind == Kind::Bb {
                p.k = *rng.pick(&MULTS);
            }
            if defaults {
                p = kind.default_params();
                rep.count("rand.streams_on_default_configuration");
            }
            let n = p.p[0];
            let st = run_stream(rep, "C01", "c01", &p, &inputs, usize::MAX, 1, &judge);
            rep.count("rand.streams");
            rep.add("rand.wraps", (st.steps / n) as u64);
            if st.steps > n {
                rep.distinct_case(hash_f64s(kind as u64 * 4099 + n as u64, &xs[..xs.len().min(64)]));
            }
        }
        rep.count(&format!("rand.kind.{:?}", rk));
        if n == 1 {
            rep.count("rand.period_1");
        }
        if n >= 512 {
            rep.count("rand.period_ge_512");
        }
    })
}

fn run_regime(ctx: &Ctx) -> Report {
    let reps = ctx.pick(2, 16);
    let mut jobs = Vec::new();
    let ms = [1e-3, 1.0, 37.5, 1e6];
    let mut idx = 0usize;
    for _ in 0..reps {
        for regime in BAND_REGIMES {
            for m in ms {
                for n in [1usize, 2, 3, 5, 7, 14, 50, 200] {
                    jobs.push((idx, regime, m, n));
                    idx += 1;
                }
            }
        }
    }
    let seed = ctx.seed;
    let len = ctx.pick(3000usize, 8000usize);
    par_run(jobs, ctx.threads, move |(idx, regime, m, n), rep| {
        let mut g = BandGen::new(*regime, *m, seed ^ (*idx as u64).wrapping_mul(0x9E3779B97F4A7C15));
        let l = if *n >= 200 { len.min(3000) } else { len };
        let xs = g.take(l);
        let inputs: Vec<In> = xs.iter().map(|x| In::S(*x)).collect();
        let mut rng = Rng::derive(seed, 0xC01B, *idx as u64);
        for kind in KINDS {
            let mut p = Params::new1(kind, *n);
            if kind == Kind::Bb {
                p.k = *rng.pick(&MULTS);
            }
            run_stream(rep, "C01", "c01", &p, &inputs, usize::MAX, 1, &judge);
            rep.count("regime.streams");
            rep.distinct_case(hash_f64s(kind as u64 * 977 + *n as u64, &xs[..64.min(xs.len())]) ^ 0x5151);
        }
        rep.count(&format!("regime.{}", regime.label()));
    })
}

pub fn run(ctx: &Ctx) -> Report {
    let mut rep = Report::new();
    if ctx.phase_enabled("enum") {
        rep.merge(run_enum(ctx));
    }
    if ctx.phase_enabled("rand") {
        rep.merge(run_rand(ctx));
    }
    if ctx.phase_enabled("regime") {
        rep.merge(run_regime(ctx));
    }
    // coverage floors: a run that observed too little is inconclusive, never "held"
    if ctx.only.is_none() {
        for key in ["enum.phase.warmup", "enum.phase.exactly_full", "enum.phase.wrapped_twice_or_more", "enum.window_has_tie", "enum.evicted_value_was_strict_extreme", "rand.period_1", "phase.wrapped_twice_or_more"] {
            if rep.counters.get(key).copied().unwrap_or(0) == 0 {
                rep.inconclusive.push(format!("coverage floor missed: {} = 0", key));
            }
        }
    }
    rep
}
