//! C07 — bounded oscillators stay inside their documented range.

use crate::common::{ops_json, panic_violation, phase, replay_range, Ctx};
use crate::gen::{rand_stream, BandGen, BarGen, RandKind, Regime, BAND_REGIMES, BAR_STYLES};
use crate::inst::{Bar, In, Inst, Kind, Params};
use crate::refmodel::{tau, RefModel};
use crate::report::{hash_f64s, par_run, Report};
use crate::rng::Rng;
use serde_json::json;

pub const KINDS: [Kind; 5] = [Kind::Rsi, Kind::Fast, Kind::Slow, Kind::Mfi, Kind::Er];

pub const RULE: &str = "RSI/FAST/SLOW/ER on scalar price streams (one in 16 just below overflow: prices in [1e306, 8e307]; band regimes incl. long monotone runs pinning outputs at 0/100, one-tick ranges, nearly flat, alternating extremes; some mixed-sign streams) and RSI/FAST/SLOW/ER/MFI on valid OHLCV bars (6 styles, volume over 6 decades incl. 0) plus bar streams with injected invalid bars (FAST judged only while its whole window satisfied low<=close<=high), periods 1..=512; every output at every step whose reference denominator is non-zero must lie in [0,100] (ER [0,1]) within 1e-9 (+100*tau(t)*c for MFI, judged when c<=1000), NaN counts as out of range. Non-trivial: stream longer than the period with >= 1 judged step; distinct by hash of (indicator, params, stream head).";

fn range_of(kind: Kind) -> (f64, f64) {
    if kind == Kind::Er {
        (0.0, 1.0)
    } else {
        (0.0, 100.0)
    }
}

pub fn run_range_stream(rep: &mut Report, p: &Params, inputs: &[In], allow_invalid_bars: bool) -> usize {
    let mut inst = Inst::new(p);
    // every third stream runs on an instance that already consumed another stream and was reset():
    // the range claim is per stream "since construction/reset"
    let mut prefix_ops: Vec<serde_json::Value> = Vec::new();
    if inputs.len() % 3 == 0 {
        let k = inputs.len().min(3 * p.max_period().min(64) + 5);
        for x in inputs[..k].iter().rev() {
            let y = match x {
                In::S(v) => In::S(v * 0.5 + 2.0),
                In::B(b) => In::B(Bar { v: b.v * 3.0 + 1.0, ..b.scale_prices(0.5) }),
            };
            prefix_ops.push(y.to_json());
            let _ = inst.feed(&y);
        }
        prefix_ops.push(json!({"op": "reset"}));
        let _ = inst.reset();
        rep.count("streams_on_recycled_instance(reset_after_prefix)");
    }
    let mut rm = RefModel::new(p);
    let (lo, hi) = range_of(p.kind);
    let n = p.n();
    let mut judged = 0usize;
    let mut ever_invalid = false;
    let len = inputs.len();
    let perturb_at: [usize; 2] = if len % 2 == 0 && len > 4 { [len / 3, (2 * len) / 3 + 1] } else { [usize::MAX, usize::MAX] };
    for (i, x) in inputs.iter().enumerate() {
        // transparent identity changes mid-stream (clone-and-replace, serialize-deserialize-and-replace)
        if i == perturb_at[0] {
            prefix_ops.push(inst.perturb(0).to_json());
        }
        if i == perturb_at[1] {
            prefix_ops.push(inst.perturb(1).to_json());
        }
        // ... and a clone_from into a used instance while the window is still filling (a third of the streams)
        if i == 2 + len % 5 && len % 3 == 1 {
            prefix_ops.push(inst.perturb(2).to_json());
        }
        let r = rm.push(x);
        let out = match inst.feed(x) {
            Ok(o) => o,
            Err(pn) => {
                panic_violation(rep, "C07", "c07", p, ops_json(&inputs[..=i]), &pn.0);
                return judged;
            }
        };
        let t = i + 1;
        if let In::B(b) = x {
            if !(b.l <= b.c && b.c <= b.h) {
                ever_invalid = true;
            }
        }
        // applicability
        // ER's first output has no price step behind it: the defining ratio's denominator is the
        // empty sum, so C07 does not apply (C03 checks the documented first output on positive prices)
        if r.degenerate || (p.kind == Kind::Er && t == 1) {
            rep.count("skipped.zero_reference_denominator");
            continue;
        }
        let mut slack = 1e-9;
        match p.kind {
            Kind::Fast => {
                if allow_invalid_bars && !rm.bars_valid.iter().all(|v| *v) {
                    rep.count("skipped.fast_window_has_invalid_bar");
                    continue;
                }
            }
            Kind::Slow => {
                if ever_invalid {
                    rep.count("skipped.slow_history_has_invalid_bar");
                    continue;
                }
            }
            Kind::Mfi => {
                if !(r.c[0] <= 1000.0) || r.near_tie {
                    rep.count("skipped.mfi_ill_conditioned");
                    continue;
                }
                slack += 100.0 * tau(t) * r.c[0];
            }
            _ => {}
        }
        judged += 1;
        rep.evaluations += 1;
        let v = out.v[0];
        let key = match p.kind {
            Kind::Rsi => "c07.RSI.range",
            Kind::Fast => "c07.FAST.range",
            Kind::Slow => "c07.SLOW.range",
            Kind::Mfi => "c07.MFI.range",
            _ => "c07.ER.range",
        };
        let excess = if v.is_nan() { f64::INFINITY } else { (lo - v).max(v - hi).max(0.0) };
        rep.ratio(key, excess / slack);
        if v == lo || v == hi {
            rep.count("outputs_pinned_at_a_bound");
        }
        if !(v >= lo - slack && v <= hi + slack) {
            let class = if v.is_nan() { "nan" } else if v > hi { "above" } else { "below" };
            let sig = format!("{}/c07.range/{}/{}", p.kind.name(), class, phase(t, n));
            if rep.is_new_sig(&sig) {
                let detail = format!("{} t={}: output {:e} outside [{}, {}] ± {:e} (reference {:e}, c={:e})", p.label(), t, v, lo, hi, slack, r.v[0].to_f64(), r.c[0]);
                // (the perturbation ops are listed before the inputs; their exact position is in `detail`)
                let mut ops = prefix_ops.clone();
                ops.extend(inputs[..=i].iter().map(|x| x.to_json()));
                let replay = replay_range("C07", &sig, p, serde_json::Value::Array(ops), 0, lo - slack, hi + slack, &detail);
                rep.violation(sig, detail, replay);
            } else {
                rep.violation_again(&sig);
            }
            return judged;
        }
        if rep.wants_sample() && t == n.saturating_mul(2).saturating_add(3).min(inputs.len()) {
            rep.sample(json!({"indicator": p.label(), "t": t, "last_input": x.to_json(), "observed": out.to_json(), "range": [lo, hi], "slack": slack}));
        }
    }
    judged
}

fn period(rng: &mut Rng) -> usize {
    match rng.below(8) {
        0 => 1,
        1 => 2,
        2 => 3,
        _ => (rng.log_uniform(1.0, 512.99) as usize).clamp(1, 512),
    }
}

fn variant(kind: Kind, rng: &mut Rng) -> Params {
    // one draw in twelve is the documented default configuration (which the wrapper builds through Default::default())
    if rng.below(12) == 0 {
        return kind.default_params();
    }
    let mut p = Params::new1(kind, period(rng));
    if kind == Kind::Slow {
        p.p[1] = period(rng).min(64);
    }
    p
}

fn run_scalar(ctx: &Ctx) -> Report {
    let njobs = ctx.pick(6400, 96000);
    let seed = ctx.seed;
    let maxlen = ctx.pick(6000usize, 30000usize);
    let jobs: Vec<usize> = (0..njobs).collect();
    par_run(jobs, ctx.threads, move |idx, rep| {
        let mut rng = Rng::derive(seed, 0xC07, *idx as u64);
        let len = rng.range(40, maxlen);
        let xs: Vec<f64> = match if idx % 16 == 9 { 99 } else { idx % 4 } {
            99 => {
                // finite prices just below overflow: in [1e306, 8e307] every difference and every sum of two
                // averages is representable, but 100 * x is not — a ratio that is scaled before it is divided
                // leaves [0, 100] for inf
                rep.count("scalar.streams_near_f64_max");
                let len = len.min(600);
                (0..len).map(|i| if i % 11 == 4 { 1e306 } else { 1e306 + 7.9e307 * rng.f() }).collect()
            }
            0 => {
                // long monotone run (pins RSI / FAST at 0 or 100), then reversal
                let m = rng.log_uniform(1e-3, 1e5);
                let up = rng.chance(0.5);
                let tick = *rng.pick(&[1.0, 1e-6, 1e-12]) * m;
                let mut x = m * 500.0;
                (0..len)
                    .map(|i| {
                        let d = if (i < 2 * len / 3) == up { tick } else { -tick };
                        x += d * if rng.chance(0.1) { 0.0 } else { 1.0 };
                        x
                    })
                    .collect()
            }
            1 => rand_stream(*rng.pick(&[RandKind::MixedSign, RandKind::Integer, RandKind::AltDecades, RandKind::Uniform]), len, &mut rng),
            _ => {
                let m = *rng.pick(&[1e-3, 1.0, 37.5, 1e6]);
                let reg = if rng.chance(0.2) { Regime::Monotone } else { BAND_REGIMES[(idx / 4) % BAND_REGIMES.len()] };
                BandGen::new(reg, m, rng.u64()).take(len)
            }
        };
        let inputs: Vec<In> = xs.iter().map(|x| In::S(*x)).collect();
        for kind in [Kind::Rsi, Kind::Fast, Kind::Slow, Kind::Er] {
            let p = variant(kind, &mut rng);
            let judged = run_range_stream(rep, &p, &inputs, false);
            rep.count("scalar.streams");
            if judged > 0 && len > p.max_period() {
                rep.distinct_case(hash_f64s(kind as u64 * 131 + p.p[0] as u64 * 3 + p.p[1] as u64, &xs[..xs.len().min(64)]));
            }
            if p.p[0] == 1 {
                rep.count("period_1");
            }
        }
    })
}

fn run_bars(ctx: &Ctx) -> Report {
    let njobs = ctx.pick(6400, 96000);
    let seed = ctx.seed;
    let maxlen = ctx.pick(5000usize, 20000usize);
    let jobs: Vec<usize> = (0..njobs).collect();
    par_run(jobs, ctx.threads, move |idx, rep| {
        let mut rng = Rng::derive(seed, 0xC07B, *idx as u64);
        let len = rng.range(30, maxlen);
        let base = *rng.pick(&[1e-2, 1.0, 50.0, 1e4]);
        let mut bars: Vec<Bar> = BarGen::new(BAR_STYLES[idx % BAR_STYLES.len()], base, rng.u64()).take(len);
        if idx % 6 == 3 {
            // other units: prices and volumes both tiny (money flows ~1e-16 and below) or both huge
            let (pf, vf) = *rng.pick(&[(1e-8, 1e-8), (1e-9, 1e-7), (1e-12, 1e-6), (1e6, 1e6)]);
            for b in bars.iter_mut() {
                *b = Bar { v: b.v * vf, ..b.scale_prices(pf) };
            }
            rep.count("bar.streams_in_tiny_or_huge_units");
        }
        if idx % 16 == 11 {
            // prices in [1e306, 5e307] with volumes 1e-6..1e-3: typical prices, money flows and their window
            // sums stay representable
            for b in bars.iter_mut() {
                let u = [rng.f(), rng.f(), rng.f(), rng.f()];
                let (lo_p, hi_p) = (1e306 + 2e307 * u[0], 2.1e307 + 2.9e307 * u[1]);
                *b = Bar { o: lo_p + (hi_p - lo_p) * u[2], h: hi_p, l: lo_p, c: lo_p + (hi_p - lo_p) * u[3], v: 1e-6 + 1e-3 * u[2] };
            }
            bars.truncate(600);
            rep.count("bar.streams_near_f64_max");
        }
        let inject_invalid = idx % 5 == 4 && idx % 16 != 11;
        if inject_invalid {
            for b in bars.iter_mut() {
                if rng.chance(0.01) {
                    // close outside [low, high]
                    b.c = if rng.chance(0.5) { b.h * 1.01 } else { b.l * 0.99 };
                }
            }
            rep.count("bar.streams_with_invalid_bars");
        }
        let inputs: Vec<In> = bars.iter().map(|b| In::B(*b)).collect();
        let heads: Vec<f64> = bars.iter().take(16).flat_map(|b| b.fields()).collect();
        for kind in KINDS {
            if inject_invalid && kind == Kind::Mfi {
                continue; // MFI's claim is for valid bars
            }
            let p = variant(kind, &mut rng);
            let judged = run_range_stream(rep, &p, &inputs, inject_invalid);
            rep.count("bar.streams");
            if judged > 0 && len > p.max_period() {
                rep.distinct_case(hash_f64s(0xB000 + kind as u64 * 131 + p.p[0] as u64, &heads));
            }
        }
    })
}

fn run_huge_periods(ctx: &Ctx) -> Report {
    let jobs = crate::common::huge_period_params();
    let seed = ctx.seed;
    par_run(jobs, ctx.threads, move |p, rep| {
        if !KINDS.contains(&p.kind) || Inst::try_new(p).is_err() {
            return;
        }
        let mut rng = Rng::derive(seed, 0xC07E, p.p[0] as u64 ^ p.p[1] as u64);
        let xs = BandGen::new(BAND_REGIMES[rng.below(BAND_REGIMES.len())], 1.0, rng.u64()).take(400);
        let inputs: Vec<In> = xs.iter().map(|x| In::S(*x)).collect();
        run_range_stream(rep, p, &inputs, false);
        rep.count("huge_period_streams");
    })
}

pub fn run(ctx: &Ctx) -> Report {
    let mut rep = Report::new();
    if ctx.phase_enabled("huge") {
        rep.merge(run_huge_periods(ctx));
    }
    if ctx.phase_enabled("scalar") {
        rep.merge(run_scalar(ctx));
    }
    if ctx.phase_enabled("bars") {
        rep.merge(run_bars(ctx));
    }
    if ctx.only.is_none() {
        for key in ["outputs_pinned_at_a_bound", "period_1", "bar.streams_with_invalid_bars", "skipped.fast_window_has_invalid_bar", "scalar.streams_near_f64_max", "bar.streams_near_f64_max"] {
            if rep.counters.get(key).copied().unwrap_or(0) == 0 {
                rep.inconclusive.push(format!("coverage floor missed: {} = 0", key));
            }
        }
        for k in KINDS {
            if !rep.ratios.contains_key(&format!("c07.{}.range", k.name())) {
                rep.inconclusive.push(format!("no judged step for {}", k.name()));
            }
        }
    }
    rep
}
