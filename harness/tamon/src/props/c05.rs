//! C05 — clones and separate instances are independent and deterministic.

use crate::common::{ops_json_ops, replay_twin, Ctx};
use crate::gen::{BarGen, BarStyle};
use crate::inst::{Bar, Inst, Kind, Op, Params, Res, ALL_KINDS};
use crate::report::{par_run, Report};
use crate::rng::Rng;
use serde_json::json;
use std::collections::HashSet;
use std::sync::atomic::{AtomicU64, Ordering};
use std::sync::{Arc, Barrier, Mutex};

pub const RULE: &str = "For all 22 indicators: (a) clone taken at every prefix of streams of length 3n+3.. for periods 1..=8 (+ sampled larger); original, clone and a fresh replay are then fed the same continuation while a second clone and an unrelated instance are fed a different stream in between, and every output must be bit-identical to the replay's; (b) every merge (interleaving) of two op sequences of length <= 4 and of three of length <= 3 over {next, reset, clone-and-swap} on instances with equal parameters: per-instance outputs must equal the outputs of that sequence run alone; (c) 16 OS threads each driving their own instances (with injected yields/spins between client calls) while all read one Arc-shared instance: per-thread output digests must equal the single-threaded digest, and a whole-workload digest must be equal across runs with 1 and 16 threads (the driver also compares it across separate process launches); (d) instances fed on one thread, moved to another and back several times (a decoy of the same type being fed on every thread visited) must return what a single-thread replay returns. Non-trivial: at least one input after the clone point / a merge with >= 2 instances actually interleaved; distinct by construction.";

pub fn digest_out(h: &mut u64, r: &Res) {
    let mut mix = |x: u64| {
        *h ^= x;
        *h = h.wrapping_mul(0x100000001b3);
        *h ^= *h >> 31;
    };
    match r {
        Res::Out(o) => {
            for v in o.vals() {
                mix(v.to_bits());
            }
        }
        Res::Text(s) => {
            for b in s.bytes() {
                mix(b as u64);
            }
        }
        Res::Num(n) => mix(*n),
        Res::F(x) => mix(x.to_bits()),
        Res::Bytes(n) => mix(*n as u64),
        Res::Unit => mix(1),
        Res::Unsupported => mix(2),
        Res::Panic(_) => mix(3),
        Res::Error(_) => mix(4),
    }
}

fn stream(bars: bool, len: usize, seed: u64) -> Vec<Op> {
    // a third of the streams carry non-finite / extreme inputs: "the same history" includes those
    if seed % 3 == 2 {
        let mut r = Rng::new(seed);
        return (0..len)
            .map(|_| {
                if bars {
                    Op::NextBar(if r.chance(0.15) { crate::gen::hostile_bar(&mut r) } else { Bar::flat(r.uniform(1.0, 50.0), r.f()) })
                } else {
                    Op::NextF(if r.chance(0.15) { crate::gen::hostile_scalar(&mut r) } else { r.uniform(-20.0, 80.0) })
                }
            })
            .collect();
    }
    if bars {
        let mut g = BarGen::new(BarStyle::Mixed, 1.0, seed);
        (0..len).map(|_| Op::NextBar(g.next())).collect()
    } else {
        let mut r = Rng::new(seed);
        (0..len).map(|_| Op::NextF(if r.chance(0.2) { r.below(4) as f64 } else { r.uniform(-20.0, 80.0) })).collect()
    }
}

fn variant(kind: Kind, n: usize) -> Params {
    let mut p = Params::new1(kind, n);
    match kind {
        Kind::Macd | Kind::Ppo => p.p = [n, n + 1, 2],
        Kind::Slow => p.p = [n, 2, 0],
        Kind::Bb | Kind::Kc | Kind::Ce => p.k = 2.0,
        _ => {}
    }
    p
}

fn fail(rep: &mut Report, p: &Params, class: &str, tag: &str, detail: String, a: &[Op], b: &[Op]) {
    let sig = format!("{}/c05.{}/{}", p.kind.name(), class, tag);
    if rep.is_new_sig(&sig) {
        let replay = replay_twin("C05", &sig, p, ops_json_ops(a), p, ops_json_ops(b), 0, "id", 1.0, 0.0, 0.0, 0.0, &detail);
        rep.violation(sig, detail, replay);
    } else {
        rep.violation_again(&sig);
    }
}

fn res_bits_eq(a: &Res, b: &Res) -> bool {
    match (a, b) {
        (Res::Out(x), Res::Out(y)) => x.bits_eq(y),
        (Res::F(x), Res::F(y)) => x.to_bits() == y.to_bits(),
        _ => a == b,
    }
}

// (a) clone at every prefix -------------------------------------------------------------------
fn clone_everywhere(rep: &mut Report, p: &Params, bars: bool, seed: u64) {
    let n = p.max_period();
    // at least 24 inputs: period-less indicators (OBV, TR) and period 1..7 need room for state to build up
    // between the two resets below (a running sum whose low-order part a copy might drop, for one)
    let len = (3 * n + 3).max(24) + (seed % 3) as usize;
    let mut s = stream(bars, len, seed);
    let mut d = stream(bars, len, seed ^ 0xD15707B);
    // both streams contain reset() calls: a clone taken right before one shares whatever the implementation
    // shares at the moment the other side resets
    if len > 6 {
        s[len / 2] = Op::Reset;
        s[len - 2] = Op::Reset;
        d[len / 2 + 1] = Op::Reset;
        d[1] = Op::Reset;
    }
    // replay outputs
    let mut r = Inst::new(p);
    let or: Vec<Res> = s.iter().map(|op| r.apply(op)).collect();
    for cut in 0..=len {
        let mut a = Inst::new(p);
        for op in &s[..cut] {
            a.apply(op);
        }
        let mut b = match a.try_clone() {
            Ok(b) => b,
            Err(e) => {
                fail(rep, p, "clone_panic", "clone", format!("{} clone panicked: {}", p.label(), e.0), &s[..cut], &[]);
                return;
            }
        };
        let mut c = a.try_clone().ok();
        // a used instance overwritten through Clone::clone_from must continue like a clone, too
        // (built with the same, smaller or larger periods in turn, and fed past its own first wrap)
        let rp = p.receiver_variant(cut);
        let mut e = Inst::new(&rp);
        for i in 0..(cut % 7 + 1 + if cut % 2 == 0 { rp.max_period().min(40) } else { 0 }) {
            e.apply(&d[i % len]);
        }
        let e_ok = e.assign_from(&a).is_ok();
        let mut u = Inst::new(p); // unrelated live instance with the same parameters
        for (i, op) in s[cut..].iter().enumerate() {
            let k = cut + i;
            // disturb: feed other live instances a different stream in between
            if let Some(cc) = c.as_mut() {
                cc.apply(&d[k]);
            }
            let ra = a.apply(op);
            u.apply(&d[(k + 1) % len]);
            if i == (len - cut) / 2 {
                c = None; // drop a clone mid-way (a shallow clone would free shared storage here)
            }
            let rb = b.apply(op);
            if e_ok {
                let re = e.apply(op);
                rep.evaluations += 1;
                if !res_bits_eq(&re, &or[k]) {
                    fail(rep, p, "clone_from_differs", "clone", format!("{}: a used instance assigned with clone_from at {} returns {:?} at step {}, replay {:?}", p.label(), cut, re, k + 1, or[k]), &s[..=k], &s[..=k]);
                    return;
                }
            }
            rep.evaluations += 2;
            if !res_bits_eq(&ra, &or[k]) {
                fail(rep, p, "original_disturbed", "clone", format!("{}: original's output at step {} changed ({:?} vs replay {:?}) after a clone taken at {} was fed other data", p.label(), k + 1, ra, or[k], cut), &s[..=k], &s[..=k]);
                return;
            }
            if !res_bits_eq(&rb, &or[k]) {
                fail(rep, p, "clone_differs", "clone", format!("{}: clone taken at {} returns {:?} at step {}, replay {:?}", p.label(), cut, rb, k + 1, or[k]), &s[..=k], &s[..=k]);
                return;
            }
        }
        if cut < len {
            rep.distinct_by_construction += 1;
        }
        rep.count("clone.positions");
    }
    if rep.wants_sample() && seed % 17 == 0 {
        rep.sample(json!({"phase": "clone_at_every_prefix", "indicator": p.label(), "stream_len": len, "clone_positions": len + 1, "stream_head": ops_json_ops(&s[..3.min(len)])}));
    }
}

// (b) all merges ------------------------------------------------------------------------------
fn seq_alphabet(bars: bool, who: usize) -> Vec<Op> {
    let base = 3.0 + 10.0 * who as f64;
    if bars {
        vec![
            Op::NextBar(Bar { o: base, h: base + 2.0, l: base - 1.0, c: base + 0.5, v: 1.0 + who as f64 }),
            Op::NextBar(Bar { o: base + 1.0, h: base + 1.5, l: base - 2.0, c: base - 1.25, v: 4.0 }),
            Op::Reset,
            Op::SerDeSwap,
        ]
    } else {
        vec![Op::NextF(base), Op::NextF(base - 4.5), Op::Reset, Op::SerDeSwap]
    }
}

/// apply op; `SerDeSwap` is used here as "replace the instance by its clone and drop the original"
fn apply_cloneswap(inst: &mut Inst, op: &Op) -> Res {
    if let Op::SerDeSwap = op {
        match inst.try_clone() {
            Ok(c) => {
                *inst = c;
                Res::Unit
            }
            Err(e) => Res::Panic(e.0),
        }
    } else {
        inst.apply(op)
    }
}

fn merges(counts: &[usize], cur: &mut Vec<usize>, left: &mut Vec<usize>, f: &mut dyn FnMut(&[usize])) {
    if left.iter().all(|x| *x == 0) {
        f(cur);
        return;
    }
    for i in 0..counts.len() {
        if left[i] > 0 {
            left[i] -= 1;
            cur.push(i);
            merges(counts, cur, left, f);
            cur.pop();
            left[i] += 1;
        }
    }
}

fn all_merges(rep: &mut Report, p: &Params, bars: bool, seqs: &[Vec<Op>]) {
    // outputs of each sequence run alone
    let alone: Vec<Vec<Res>> = seqs
        .iter()
        .map(|s| {
            let mut i = Inst::new(p);
            s.iter().map(|op| apply_cloneswap(&mut i, op)).collect()
        })
        .collect();
    let counts: Vec<usize> = seqs.iter().map(|s| s.len()).collect();
    let mut left = counts.clone();
    let _ = bars;
    merges(&counts, &mut Vec::new(), &mut left, &mut |order| {
        let mut insts: Vec<Inst> = seqs.iter().map(|_| Inst::new(p)).collect();
        let mut pos = vec![0usize; seqs.len()];
        for &w in order {
            let op = &seqs[w][pos[w]];
            let r = apply_cloneswap(&mut insts[w], op);
            rep.evaluations += 1;
            if !res_bits_eq(&r, &alone[w][pos[w]]) {
                let mut merged: Vec<Op> = Vec::new();
                for &x in order {
                    let _ = x;
                }
                merged.extend(seqs[w][..=pos[w]].iter().cloned());
                fail(rep, p, "interleaving_changes_output", "merge", format!("{}: instance {} op {} returned {:?} when interleaved as {:?}, {:?} when run alone", p.label(), w, pos[w], r, order, alone[w][pos[w]]), &merged, &merged);
                return;
            }
            pos[w] += 1;
        }
        rep.count("merge.interleavings");
        let mut seen = [false; 3];
        for &w in order {
            seen[w] = true;
        }
        if seen.iter().filter(|x| **x).count() >= 2 {
            rep.distinct_by_construction += 1;
        }
    });
}

fn run_merges(ctx: &Ctx) -> Report {
    let mut jobs = Vec::new();
    for kind in ALL_KINDS {
        let nmax = if kind.n_periods() == 0 { 1 } else { 3 };
        for n in 1..=nmax {
            for bars in [false, true] {
                if !bars && !kind.has_scalar() {
                    continue;
                }
                jobs.push((kind, n, bars));
            }
        }
    }
    let thorough = !ctx.quick();
    par_run(jobs, ctx.threads, move |(kind, n, bars), rep| {
        let p = variant(*kind, *n);
        let a0 = seq_alphabet(*bars, 0);
        let a1 = seq_alphabet(*bars, 1);
        let a2 = seq_alphabet(*bars, 2);
        // two sequences of length up to 4: all pairs of sequences drawn from a fixed family
        let fam = |a: &Vec<Op>| -> Vec<Vec<Op>> {
            vec![
                vec![a[0].clone(), a[1].clone(), a[0].clone(), a[1].clone()],
                vec![a[0].clone(), a[2].clone(), a[1].clone(), a[0].clone()],
                vec![a[1].clone(), a[3].clone(), a[0].clone(), a[0].clone()],
                vec![a[0].clone(), a[0].clone(), a[3].clone(), a[2].clone()],
            ]
        };
        for s0 in fam(&a0) {
            for s1 in fam(&a1) {
                all_merges(rep, &p, *bars, &[s0.clone(), s1.clone()]);
            }
        }
        // three sequences of length 3
        let fam3 = |a: &Vec<Op>| -> Vec<Vec<Op>> {
            let mut v = vec![vec![a[0].clone(), a[1].clone(), a[0].clone()], vec![a[1].clone(), a[2].clone(), a[0].clone()]];
            if thorough {
                v.push(vec![a[0].clone(), a[3].clone(), a[1].clone()]);
            }
            v
        };
        for s0 in fam3(&a0) {
            for s1 in fam3(&a1) {
                for s2 in fam3(&a2) {
                    all_merges(rep, &p, *bars, &[s0.clone(), s1.clone(), s2.clone()]);
                }
            }
        }
        if rep.wants_sample() && *n == 2 {
            rep.sample(json!({"phase": "all_merges", "indicator": p.label(), "sequences": [ops_json_ops(&fam(&a0)[1]), ops_json_ops(&fam(&a1)[2])], "note": "serde_swap here means clone-and-replace"}));
        }
    })
}

fn run_clones(ctx: &Ctx) -> Report {
    let mut jobs = Vec::new();
    let reps = ctx.pick(8u64, 80u64);
    for kind in ALL_KINDS {
        let periods: Vec<usize> = if kind.n_periods() == 0 { vec![1] } else { vec![1, 2, 3, 4, 5, 6, 7, 8, 13, 30] };
        for n in periods {
            for bars in [false, true] {
                if !bars && !kind.has_scalar() {
                    continue;
                }
                for r in 0..reps {
                    jobs.push((kind, n, bars, r));
                }
            }
        }
    }
    let seed = ctx.seed;
    par_run(jobs, ctx.threads, move |(kind, n, bars, r), rep| {
        let p = variant(*kind, *n);
        clone_everywhere(rep, &p, *bars, seed.wrapping_mul(31).wrapping_add(*r * 17 + *n as u64));
    })
}

// (c) threads ---------------------------------------------------------------------------------

/// One worker's workload: drives its own instances of every kind over a seeded stream, with
/// optional yields/spins between client calls, reading a shared instance in between.
fn worker_digest(wid: u64, seed: u64, steps: usize, delays: bool, shared: Option<&Arc<Vec<Box<dyn crate::inst::Ind>>>>, stamp: Option<(&AtomicU64, &Mutex<Vec<(u64, u8)>>)>) -> u64 {
    let mut h: u64 = 0xcbf29ce484222325 ^ wid;
    let mut rng = Rng::derive(seed, 0xC05, wid);
    // delays draw from their own generator so the workload itself is schedule-independent
    let mut drng = Rng::derive(seed, 0xDE1A, wid);
    let mut insts: Vec<(Inst, bool)> = Vec::new();
    for kind in ALL_KINDS {
        let n = 1 + (wid as usize + kind as usize) % 9;
        let p = variant(kind, n);
        insts.push((Inst::new(&p), !kind.has_scalar() || (wid + kind as u64) % 2 == 0));
    }
    let mut g = BarGen::new(BarStyle::Mixed, 1.0, seed ^ wid.wrapping_mul(0x51ED));
    let mut local_stamps: Vec<(u64, u8)> = Vec::new();
    // Canaries for hidden per-thread state of the floating-point unit (flush-to-zero / rounding mode): an
    // EMA decaying through the subnormal range is digested first, then indicators are driven through their
    // rare branches (ties, flat windows, zero flow) which must leave the thread as they found it. The
    // sequential reference runs all workers on ONE thread, so a mode left behind by worker w changes the
    // canary of worker w+1 there but not on the fresh threads of the parallel run.
    {
        let mut canary = Inst::new(&variant(Kind::Ema, 2));
        let mut x = 1e-300;
        for _ in 0..60 {
            digest_out(&mut h, &canary.apply(&Op::NextF(x)));
            x *= 1e-1;
        }
        for kind in ALL_KINDS {
            let mut rare = Inst::new(&variant(kind, 1));
            for i in 0..6 {
                // (the fifth input is a NaN: whatever an indicator does on bad input, it does it every time, not
                // "once per process")
                let x = if i == 4 { f64::NAN } else { 10.0 };
                let op = if kind.has_scalar() { Op::NextF(x) } else { Op::NextBar(Bar { c: x, ..Bar::flat(10.0, if i % 2 == 0 { 0.0 } else { 5.0 }) }) };
                digest_out(&mut h, &rare.apply(&op));
            }
        }
    }
    for step in 0..steps {
        let b = g.next();
        let x = b.c;
        for (inst, bars) in insts.iter_mut() {
            let r = if *bars { inst.apply(&Op::NextBar(b)) } else { inst.apply(&Op::NextF(x)) };
            digest_out(&mut h, &r);
            if let Some((ctr, _)) = stamp {
                if local_stamps.len() < 64 {
                    local_stamps.push((ctr.fetch_add(1, Ordering::SeqCst), wid as u8));
                }
            }
            if delays {
                match drng.below(16) {
                    0 => std::thread::yield_now(),
                    1 => {
                        for _ in 0..drng.below(200) {
                            std::hint::spin_loop();
                        }
                    }
                    _ => {}
                }
            }
        }
        if step % 7 == 3 {
            // clone-and-replace one instance, reset another
            let k = rng.below(insts.len());
            if let Ok(c) = insts[k].0.try_clone() {
                insts[k].0 = c;
            }
            let k2 = rng.below(insts.len());
            if step % 21 == 3 {
                let _ = insts[k2].0.reset();
            }
        }
        if let Some(sh) = shared {
            // read-only use of an instance shared by all threads
            let k = rng.below(sh.len());
            let s = sh[k].display();
            digest_out(&mut h, &Res::Text(s));
            if let Some(pn) = sh[k].period() {
                digest_out(&mut h, &Res::Num(pn as u64));
            }
        } else {
            // keep the RNG stream aligned with the threaded run
            let k = rng.below(ALL_KINDS.len());
            let p = variant(ALL_KINDS[k], 5);
            digest_out(&mut h, &Res::Text(p.expected_display()));
            if ALL_KINDS[k].has_period() {
                digest_out(&mut h, &Res::Num(5));
            }
        }
    }
    if let Some((_, sink)) = stamp {
        sink.lock().unwrap().extend(local_stamps);
    }
    h
}

fn run_threads(ctx: &Ctx) -> Report {
    let mut rep = Report::new();
    let workers = 16u64;
    let steps = ctx.pick(400usize, 1500usize);
    let rounds = ctx.pick(30usize, 400usize);
    let mut interleavings: HashSet<u64> = HashSet::new();
    for round in 0..rounds {
        let seed = ctx.seed.wrapping_add(round as u64 * 7919);
        // sequential reference digests (same workload, one thread, shared instance read directly)
        let shared: Arc<Vec<Box<dyn crate::inst::Ind>>> = Arc::new(ALL_KINDS.iter().map(|k| crate::inst::construct_raw(&variant(*k, 5)).unwrap()).collect());
        let seq: Vec<u64> = (0..workers).map(|w| worker_digest(w, seed, steps, false, Some(&shared), None)).collect();
        let ctr = AtomicU64::new(0);
        let sink: Mutex<Vec<(u64, u8)>> = Mutex::new(Vec::new());
        let barrier = Barrier::new(workers as usize);
        let par: Vec<u64> = std::thread::scope(|s| {
            let hs: Vec<_> = (0..workers)
                .map(|w| {
                    let shared = &shared;
                    let (ctr, sink, barrier) = (&ctr, &sink, &barrier);
                    s.spawn(move || {
                        barrier.wait();
                        worker_digest(w, seed, steps, true, Some(shared), Some((ctr, sink)))
                    })
                })
                .collect();
            hs.into_iter().map(|h| h.join().unwrap_or(0)).collect()
        });
        rep.evaluations += workers * (steps as u64) * 22;
        for w in 0..workers as usize {
            if seq[w] != par[w] {
                let p = variant(Kind::Sma, 1);
                fail(&mut rep, &p, "thread_schedule_changes_outputs", "threads", format!("worker {} digest {:#x} under 16 threads vs {:#x} sequentially (round {}, seed {})", w, par[w], seq[w], round, seed), &[], &[]);
            }
        }
        // the observed interleaving = thread ids in global stamp order (first 64 stamps per thread)
        let mut st = sink.into_inner().unwrap();
        st.sort();
        let mut hh: u64 = 0xcbf29ce484222325;
        for (_, w) in st.iter().take(256) {
            hh ^= *w as u64;
            hh = hh.wrapping_mul(0x100000001b3);
        }
        interleavings.insert(hh);
        rep.count("threads.rounds");
        rep.distinct_by_construction += 1;
        if round == 0 {
            rep.sample(json!({"phase": "threads", "workers": workers, "steps_per_worker": steps, "first_stamps_thread_order": st.iter().take(48).map(|x| x.1).collect::<Vec<_>>() }));
        }
    }
    rep.add("threads.distinct_interleavings_observed", interleavings.len() as u64);
    rep
}

/// (d) migration: an instance is fed on one thread, moved to another, fed there, moved back; its outputs
/// must be bit-identical to a replay that never left the thread (no per-thread hidden state).
fn run_migration(ctx: &Ctx) -> Report {
    let mut rep = Report::new();
    let hops = ctx.pick(4usize, 12usize);
    for kind in ALL_KINDS {
        for n in [1usize, 3, 8] {
            if kind.n_periods() == 0 && n > 1 {
                continue;
            }
            let p = variant(kind, n);
            let bars = !kind.has_scalar();
            let seg = 2 * p.max_period() + 3;
            let s = stream(bars, seg * (hops + 1), ctx.seed ^ (kind as u64 * 131 + n as u64));
            let mut replay = Inst::new(&p);
            let want: Vec<Res> = s.iter().map(|op| replay.apply(op)).collect();
            let mut inst = Inst::new(&p);
            let mut got: Vec<Res> = Vec::new();
            // a decoy of the same type lives (and is fed) on every thread the instance visits
            for h in 0..=hops {
                let chunk: Vec<Op> = s[h * seg..(h + 1) * seg].to_vec();
                if h % 2 == 0 {
                    let mut decoy = Inst::new(&p);
                    for op in &chunk {
                        decoy.apply(&Op::Reset);
                        got.push(inst.apply(op));
                        decoy.apply(op);
                    }
                } else {
                    let pp = p;
                    let late_decoy = h % 4 == 1;
                    let (back, outs) = std::thread::spawn(move || {
                        let mut inst = inst;
                        // on some hops the visited thread has constructed nothing of this type before the
                        // visiting instance is used (per-thread scratch sized in the constructor)
                        let mut decoy = if late_decoy { None } else { Some(Inst::new(&pp)) };
                        let mut outs = Vec::new();
                        for op in &chunk {
                            if let Some(d) = decoy.as_mut() {
                                d.apply(op);
                            }
                            outs.push(inst.apply(op));
                            if decoy.is_none() && outs.len() > chunk.len() / 2 {
                                decoy = Some(Inst::new(&pp));
                            }
                        }
                        (inst, outs)
                    })
                    .join()
                    .expect("migration thread");
                    inst = back;
                    got.extend(outs);
                }
            }
            rep.evaluations += got.len() as u64;
            if let Some(i) = (0..got.len()).find(|i| !res_bits_eq(&got[*i], &want[*i])) {
                fail(&mut rep, &p, "output_depends_on_thread", "migration", format!("{}: after moving the instance between threads, step {} returned {:?}, a replay on one thread {:?}", p.label(), i + 1, got[i], want[i]), &s[..=i], &s[..=i]);
            }
            rep.count("migration.instances_moved_between_threads");
            rep.distinct_by_construction += 1;
        }
    }
    rep
}

/// whole-workload digest, identical for any thread count (used across process launches too)
/// Unrelated instances with *other* parameters (periods, multipliers incl. negative and NaN), built and fed
/// before the digested workload starts: whatever they do must leave no trace in it. A process-wide cache
/// filled by "the first instance that comes along" shows as a digest that depends on whether decoys ran.
pub fn run_decoys(seed: u64) {
    let mut g = BarGen::new(BarStyle::Mixed, 3.0, seed ^ 0xDEC0);
    for kind in ALL_KINDS {
        for (n, k) in [(11usize, 7.5f64), (4, -1.25), (23, f64::NAN), (2, 0.0)] {
            let mut p = variant(kind, n);
            if kind.has_multiplier() {
                p.k = k;
            }
            let mut inst = match Inst::try_new(&p) {
                Ok(i) => i,
                Err(_) => continue,
            };
            for i in 0..40 {
                let mut b = g.next();
                if i == 17 || i == 18 {
                    b.c = f64::NAN; // decoys see bad input too (once as a scalar, once inside a bar)
                }
                if i == 29 {
                    b.v = 0.0;
                }
                let _ = if kind.has_scalar() && i % 2 == 0 { inst.apply(&Op::NextF(b.c)) } else { inst.apply(&Op::NextBar(b)) };
            }
            let _ = inst.display();
            let _ = inst.try_clone();
        }
    }
}

pub fn workload_digest(seed: u64, threads: usize) -> u64 {
    let workers = 16u64;
    let ds: Vec<u64> = if threads <= 1 {
        (0..workers).map(|w| worker_digest(w, seed, 300, false, None, None)).collect()
    } else {
        std::thread::scope(|s| {
            let hs: Vec<_> = (0..workers).map(|w| s.spawn(move || worker_digest(w, seed, 300, true, None, None))).collect();
            hs.into_iter().map(|h| h.join().unwrap_or(0)).collect()
        })
    };
    let mut h = 0u64;
    for d in ds {
        h = h.rotate_left(7) ^ d;
    }
    h
}

// (e) where the caller keeps its bars --------------------------------------------------------------
/// Twins fed the same bar *values* from different places: A reads `&bars[i]` (a new address per bar), B reads
/// one reused local (the same address every time), C a fresh heap box per bar, D a second user type built
/// from the bar, E the scalar path where there is one. "Same parameters, same history" is about values: an
/// output that depends on the identity of the object it was handed is hidden state. Streams are on a tick
/// grid so that consecutive bars repeat closes, highs and lows in all combinations.
fn run_addresses(ctx: &Ctx) -> Report {
    let mut jobs = Vec::new();
    for kind in ALL_KINDS {
        for n in [1usize, 2, 3, 5, 14, 40] {
            jobs.push((kind, n));
        }
    }
    let seed = ctx.seed;
    let reps = ctx.pick(6u64, 120u64);
    par_run(jobs, ctx.threads, move |(kind, n), rep| {
        let p = variant(*kind, *n);
        for r in 0..reps {
            let mut g = crate::gen::BarGen::new(if r % 2 == 0 { crate::gen::BarStyle::TickGrid } else { crate::gen::BarStyle::Mixed }, 1.0, seed ^ (r << 8) ^ *n as u64);
            let bars: Vec<Bar> = (0..(3 * n + 40)).map(|_| g.next()).collect();
            let (mut a, mut b, mut c) = (Inst::new(&p), Inst::new(&p), Inst::new(&p));
            let mut slot: Bar;
            for (i, bar) in bars.iter().enumerate() {
                let ra = a.next_bar(bar);
                slot = *bar;
                let rb = b.next_bar(&slot);
                let boxed = Box::new(*bar);
                let rc = c.next_bar(&boxed);
                rep.evaluations += 2;
                let same = |x: &Result<crate::inst::Out, crate::inst::Panicked>, y: &Result<crate::inst::Out, crate::inst::Panicked>| match (x, y) {
                    (Ok(u), Ok(v)) => u.bits_eq(v),
                    (Err(_), Err(_)) => true,
                    _ => false,
                };
                if !same(&ra, &rb) || !same(&ra, &rc) {
                    let ops: Vec<Op> = bars[..=i].iter().map(|x| Op::NextBar(*x)).collect();
                    fail(rep, &p, "depends_on_where_the_bar_is_stored", "addresses", format!("{}: bar {} read from a slice gives {:?}, the same values through a reused local {:?}, through a fresh box {:?}", p.label(), i + 1, ra.as_ref().ok().map(|o| o.vals()), rb.as_ref().ok().map(|o| o.vals()), rc.as_ref().ok().map(|o| o.vals())), &ops, &ops);
                    break;
                }
            }
            rep.count("addresses.twin_streams");
            rep.distinct_by_construction += 1;
        }
    })
}

// (f) receivers that are *numerically* equal to the source ---------------------------------------------
/// `clone_from` into a receiver that consumed the same stream with the sign of every zero flipped: it
/// compares equal to the source field by field (0.0 == -0.0) and is still a different state. The copy must
/// be bit-exact all the same: both then continue on a stream that again contains zeros of either sign.
fn run_zero_sign_receivers(ctx: &Ctx) -> Report {
    let mut jobs = Vec::new();
    for kind in ALL_KINDS {
        for n in [1usize, 2, 3, 5] {
            jobs.push((kind, n));
        }
    }
    let seed = ctx.seed;
    par_run(jobs, ctx.threads, move |(kind, n), rep| {
        let p = variant(*kind, *n);
        let flip = |x: f64| if x == 0.0 { -x } else { x };
        for r in 0..16u64 {
            let mut rng = Rng::derive(seed, 0xC05F, r * 31 + *n as u64);
            // r % 4: 0 = all -0.0, 1 = zeros of random sign between ordinary values, 2 = all +0.0, 3 = zeros of random sign only
            let zero = |rng: &mut Rng| match r % 4 {
                0 => -0.0,
                2 => 0.0,
                _ => if rng.chance(0.5) { 0.0 } else { -0.0 },
            };
            let vals: Vec<f64> = (0..(2 * n + 6)).map(|i| if r % 4 != 1 || i % 2 == 0 { zero(&mut rng) } else { rng.range(1, 9) as f64 * 0.5 }).collect();
            let mk = |v: f64| if kind.has_scalar() { Op::NextF(v) } else { Op::NextBar(Bar { o: v, h: v, l: v, c: v, v: v.abs() }) };
            let (mut a, mut e) = (Inst::new(&p), Inst::new(&p));
            for v in &vals {
                a.apply(&mk(*v));
                e.apply(&mk(flip(*v)));
            }
            if e.assign_from(&a).is_err() {
                continue;
            }
            let mut hist: Vec<Op> = vals.iter().map(|v| mk(*v)).collect();
            for i in 0..(2 * n + 6) {
                let v = if i < 3 { if r % 4 == 2 { 0.0 } else { -0.0 } } else if i % 3 == 2 { 1.25 } else if (i + r as usize) % 2 == 0 { -0.0 } else { 0.0 };
                let op = mk(v);
                hist.push(op.clone());
                let (ra, re) = (a.apply(&op), e.apply(&op));
                rep.evaluations += 1;
                if !res_bits_eq(&ra, &re) {
                    fail(rep, &p, "clone_from_differs", "zero_sign_receiver", format!("{}: a receiver that differed from the source only in the signs of zeros, assigned with clone_from, returns {:?} where the source returns {:?}", p.label(), re, ra), &hist, &hist);
                    break;
                }
            }
            rep.count("zero_sign_receivers");
            rep.distinct_by_construction += 1;
        }
    })
}

// (h) instances with other periods on small-integer data ---------------------------------------------
/// Instances of one kind with periods 1..=6, all fed small integers (so that different instances pass through
/// bit-identical intermediate values - sums, squared deviations - again and again), first each alone, then
/// interleaved round-robin on one thread: the outputs of each must be the same both times. A per-thread
/// cache keyed on a value but not on the instance or its parameters shows here.
fn run_small_int_neighbours(ctx: &Ctx) -> Report {
    let jobs: Vec<Kind> = ALL_KINDS.to_vec();
    let seed = ctx.seed;
    let reps = ctx.pick(8u64, 160u64);
    par_run(jobs, ctx.threads, move |kind, rep| {
        for r in 0..reps {
            let mut rng = Rng::derive(seed, 0xC05A, r * 97 + *kind as u64);
            let len = 40;
            let streams: Vec<Vec<Op>> = (1..=6usize)
                .map(|_| (0..len).map(|_| { let v = rng.below(4) as f64; if kind.has_scalar() { Op::NextF(v) } else { Op::NextBar(Bar { o: v, h: v + rng.below(3) as f64, l: v - rng.below(2) as f64, c: v, v: rng.below(3) as f64 }) } }).collect())
                .collect();
            let ps: Vec<Params> = (1..=6usize).map(|n| variant(*kind, n)).collect();
            // alone
            let alone: Vec<Vec<Res>> = ps.iter().zip(&streams).map(|(p, s)| { let mut i = Inst::new(p); s.iter().map(|op| i.apply(op)).collect() }).collect();
            // interleaved
            let mut insts: Vec<Inst> = ps.iter().map(Inst::new).collect();
            'outer: for k in 0..len {
                for (j, inst) in insts.iter_mut().enumerate() {
                    let got = inst.apply(&streams[j][k]);
                    rep.evaluations += 1;
                    if !res_bits_eq(&got, &alone[j][k]) {
                        fail(rep, &ps[j], "disturbed_by_neighbour_with_other_parameters", "small_ints", format!("{}: fed small integers next to instances with periods 1..=6 of the same kind, step {} gives {:?}; fed alone {:?}", ps[j].label(), k + 1, got, alone[j][k]), &streams[j][..=k], &streams[j][..=k]);
                        break 'outer;
                    }
                }
            }
            rep.count("small_int_neighbour_groups");
            rep.distinct_by_construction += 1;
        }
    })
}

// (g) a pause in the feed ---------------------------------------------------------------------------
/// Twins fed the same stream, one of them with a real pause of 1.1 s in the middle (one sleep for all of
/// them): outputs may not depend on when the inputs arrive.
fn run_pause(ctx: &Ctx) -> Report {
    let mut rep = Report::new();
    let mut twins: Vec<(Params, Inst, Inst, Vec<Op>)> = Vec::new();
    for kind in ALL_KINDS {
        for n in [1usize, 3, 9] {
            let p = variant(kind, n);
            let ops = stream(!kind.has_scalar() || n == 3, 3 * n + 12, ctx.seed ^ (n as u64 * 131 + kind as u64));
            twins.push((p, Inst::new(&p), Inst::new(&p), ops));
        }
    }
    let mut firsts: Vec<Vec<Res>> = Vec::new();
    for (_, a, b, ops) in twins.iter_mut() {
        let half = ops.len() / 2;
        let ra: Vec<Res> = ops.iter().map(|op| a.apply(op)).collect();
        for op in &ops[..half] {
            b.apply(op);
        }
        firsts.push(ra);
    }
    std::thread::sleep(std::time::Duration::from_millis(1100));
    for (i, (p, _, b, ops)) in twins.iter_mut().enumerate() {
        let half = ops.len() / 2;
        for (k, op) in ops[half..].iter().enumerate() {
            let rb = b.apply(op);
            rep.evaluations += 1;
            if !res_bits_eq(&rb, &firsts[i][half + k]) {
                fail(&mut rep, p, "depends_on_when_inputs_arrive", "pause", format!("{}: after a 1.1 s pause before input {} the output is {:?}, without the pause {:?}", p.label(), half + k + 1, rb, firsts[i][half + k]), &ops[..=half + k], &ops[..=half + k]);
                break;
            }
        }
        rep.count("pause.twins");
        rep.distinct_by_construction += 1;
    }
    rep
}

pub fn run(ctx: &Ctx) -> Report {
    let mut rep = Report::new();
    if ctx.phase_enabled("pause") {
        rep.merge(run_pause(ctx));
    }
    if ctx.phase_enabled("neighbours") {
        rep.merge(run_small_int_neighbours(ctx));
    }
    if ctx.phase_enabled("zerosign") {
        rep.merge(run_zero_sign_receivers(ctx));
    }
    if ctx.phase_enabled("addresses") {
        rep.merge(run_addresses(ctx));
    }
    if ctx.phase_enabled("clones") {
        rep.merge(run_clones(ctx));
    }
    if ctx.phase_enabled("merges") {
        rep.merge(run_merges(ctx));
    }
    if ctx.phase_enabled("migration") {
        rep.merge(run_migration(ctx));
    }
    if ctx.phase_enabled("threads") {
        rep.merge(run_threads(ctx));
        let d1 = workload_digest(ctx.seed, 1);
        let d16 = workload_digest(ctx.seed, 16);
        rep.evaluations += 1;
        rep.notes.push(format!("workload_digest={:#018x}", d1));
        if d1 != d16 {
            let p = variant(Kind::Sma, 1);
            fail(&mut rep, &p, "digest_differs_1_vs_16_threads", "threads", format!("whole-workload digest {:#x} (1 thread) vs {:#x} (16 threads)", d1, d16), &[], &[]);
        }
    }
    if ctx.only.is_none() {
        for key in ["addresses.twin_streams", "clone.positions", "merge.interleavings", "threads.rounds", "migration.instances_moved_between_threads"] {
            if rep.counters.get(key).copied().unwrap_or(0) == 0 {
                rep.inconclusive.push(format!("coverage floor missed: {} = 0", key));
            }
        }
        if rep.counters.get("threads.distinct_interleavings_observed").copied().unwrap_or(0) < 2 {
            rep.inconclusive.push("fewer than 2 distinct thread interleavings observed".into());
        }
    }
    rep
}
