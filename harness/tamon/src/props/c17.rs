//! C17 — windowed indicators forget: only the last n (or n+1) inputs matter.

use crate::common::{ops_json, replay_twin, Ctx};
use crate::dd::dd;
use crate::gen::{rand_stream, BandGen, BarGen, BAND_REGIMES, BAR_STYLES, RAND_KINDS};
use crate::inst::{In, Inst, Kind, Params};
use crate::refmodel::{tau, RefModel};
use crate::report::{hash_f64s, par_run, Report};
use crate::rng::Rng;
use serde_json::json;

pub const N_KINDS: [Kind; 9] = [Kind::Sma, Kind::Wma, Kind::Sd, Kind::Mad, Kind::Min, Kind::Max, Kind::Fast, Kind::Bb, Kind::Cci];
pub const N1_KINDS: [Kind; 3] = [Kind::Roc, Kind::Er, Kind::Mfi];

pub const RULE: &str = "(a fifth of the histories contain a reset() two thirds into the prefix; for the window-only MIN/MAX/FAST/ROC/ER a third of the prefixes also carry NaN, +-inf, f64::MAX or +-1e308 ticks near their end) For SMA/WMA/SD/MAD/MIN/MAX/FAST/BB/CCI (suffix length n) and ROC/ER/MFI (n+1): instance A is fed prefix+suffix, a fresh instance S only the suffix, then both a common extension of 2n+2 further inputs; outputs compared at the end of the suffix and after every extension step (so every common-suffix length n..3n+2 is covered). Prefixes: none-like short ones, random walks, RAND families, and prefixes with spikes 10^6 times larger than the suffix; suffix drawn from a different distribution than the prefix; periods 1..=512 sampled plus 1..=8 systematically; scalar and bar feeds. Oracle: MIN, MAX, FAST exactly equal; others within tau(t)*M_hist (M_hist over A's whole history; squares for SD and the Bollinger half-width; x condition number c<=1e6 for CCI and MFI, from the double-double reference run on A's history). Non-trivial: prefix non-empty and different from the suffix; distinct by hash of (indicator, params, prefix head, suffix head).";

fn suffix_len(kind: Kind, n: usize) -> usize {
    if N1_KINDS.contains(&kind) {
        n + 1
    } else {
        n
    }
}

pub fn check_forget(rep: &mut Report, p: &Params, prefix: &[In], suffix_ext: &[In], tag: &str) {
    let tag_reset = prefix.len() % 5 == 2;
    if tag_reset {
        rep.count("pairs.history_contains_a_reset");
    }
    let kind = p.kind;
    let n = p.n();
    let sl = suffix_len(kind, n);
    debug_assert!(suffix_ext.len() >= sl);
    let mut a = Inst::new(p);
    let mut s = Inst::new(p);
    let mut rm = RefModel::new(p);
    let exact = matches!(kind, Kind::Min | Kind::Max | Kind::Fast);
    for (i, x) in prefix.iter().enumerate() {
        // the full-history instance also changes identity (clone / restore) inside the prefix
        if prefix.len() > 6 && i == prefix.len() / 2 {
            a.perturb(i);
        }
        // ... and a fifth of the histories contain a reset() (after the ring has wrapped, for the longer ones)
        if tag_reset && i == (2 * prefix.len()) / 3 {
            let _ = a.reset();
        }
        if a.feed(x).is_err() {
            return;
        }
        rm.push_opt(x, false);
    }
    let mut full_a: Vec<In> = prefix.to_vec();
    for (i, x) in suffix_ext.iter().enumerate() {
        full_a.push(*x);
        let r = rm.push(x);
        let (oa, os) = match (a.feed(x), s.feed(x)) {
            (Ok(u), Ok(v)) => (u, v),
            _ => return,
        };
        if i + 1 < sl {
            continue; // S has not seen a full suffix yet
        }
        let t = r.t;
        let m = r.m;
        let tq = tau(t);
        rep.count(if i + 1 == sl { "compared.at_end_of_suffix" } else { "compared.in_extension" });
        // derived comparisons
        let mut cmp: Vec<(&'static str, f64, f64, f64)> = Vec::new(); // name, |diff|, tol, raw diff flag
        match kind {
            Kind::Min | Kind::Max | Kind::Fast => cmp.push(("value", if oa.v[0] == os.v[0] { 0.0 } else { f64::INFINITY }, 0.0, 0.0)),
            Kind::Sma | Kind::Wma | Kind::Mad => cmp.push(("value", (dd(oa.v[0]) - dd(os.v[0])).abs().to_f64(), tq * m, 0.0)),
            Kind::Sd => cmp.push(("variance", (dd(oa.v[0]).sqr() - dd(os.v[0]).sqr()).abs().to_f64(), tq * m * m, 0.0)),
            Kind::Bb => {
                cmp.push(("average", (dd(oa.v[0]) - dd(os.v[0])).abs().to_f64(), tq * m, 0.0));
                let ha = (dd(oa.v[1]) - dd(oa.v[2])) / dd(2.0);
                let hs = (dd(os.v[1]) - dd(os.v[2])) / dd(2.0);
                cmp.push(("halfwidth_sq", (ha.sqr() - hs.sqr()).abs().to_f64(), tq * m * m * (p.k * p.k).max(1.0), 0.0));
            }
            Kind::Roc | Kind::Er => {
                // neither keeps a running accumulator: exact agreement, non-finite values included
                let same = oa.v[0] == os.v[0] || (oa.v[0].is_nan() && os.v[0].is_nan());
                if oa.v[0].is_finite() && os.v[0].is_finite() {
                    cmp.push(("value", (dd(oa.v[0]) - dd(os.v[0])).abs().to_f64(), tq * r.c[0].min(1e6).max(1.0) * r.scale, 0.0));
                } else {
                    cmp.push(("value", if same { 0.0 } else { f64::INFINITY }, 0.0, 0.0));
                }
            }
            Kind::Cci | Kind::Mfi => {
                if r.near_tie || (r.degenerate && kind == Kind::Cci && !r.exact_neutral) {
                    // typical prices that tie in exact arithmetic but not necessarily in f64 (bars with equal
                    // high+low+close whose sums round): either instance may see a tie or a one-ulp move there,
                    // the outputs are rounding noise over rounding noise and nothing is claimed
                    rep.count("skipped_ill_conditioned");
                } else if r.degenerate {
                    // neutral value expected from both
                    cmp.push(("value", (dd(oa.v[0]) - dd(os.v[0])).abs().to_f64(), tq * r.scale, 0.0));
                } else if r.c[0] <= 1e6 && !(kind == Kind::Mfi && r.c[0] > 1000.0) {
                    cmp.push(("value", (dd(oa.v[0]) - dd(os.v[0])).abs().to_f64(), tq * r.c[0].max(1.0) * r.scale, 0.0));
                } else {
                    rep.count("skipped_ill_conditioned");
                }
            }
            _ => {}
        }
        for (name, err, tol, _) in cmp {
            rep.evaluations += 1;
            let key = format!("c17.{}.{}", kind.name(), name);
            rep.ratio(&key, if tol > 0.0 { err / tol } else if err == 0.0 { 0.0 } else { f64::INFINITY });
            let nan_mismatch = oa.v[0].is_nan() != os.v[0].is_nan() && !matches!(kind, Kind::Roc | Kind::Er);
            if nan_mismatch || !(err <= tol) {
                let sig = format!("{}/c17.{}/{}/{}", kind.name(), name, if exact { "not_exact" } else { "mismatch" }, tag);
                if rep.is_new_sig(&sig) {
                    let detail = format!(
                        "{}: after a {}-input prefix and {} common inputs, full-history instance gives {:?}, suffix-only instance {:?} ({}: |diff| {:e} > tol {:e})",
                        p.label(), prefix.len(), i + 1, oa.vals(), os.vals(), name, err, tol
                    );
                    let replay = replay_twin("C17", &sig, p, { let mut o = ops_json(&full_a); if tag_reset { if let Some(arr) = o.as_array_mut() { arr.insert((2 * prefix.len()) / 3, serde_json::json!({"op": "reset"})); } } o }, p, ops_json(&suffix_ext[..=i]), 0, "id", 1.0, 0.0, tol, 0.0, &detail);
                    rep.violation(sig, detail, replay);
                } else {
                    rep.violation_again(&sig);
                }
                return;
            }
        }
    }
}

fn scalar_prefix(rng: &mut Rng, len: usize, style: usize, level: f64) -> Vec<f64> {
    match style % 4 {
        0 => BandGen::new(BAND_REGIMES[rng.below(BAND_REGIMES.len())], level / 30.0, rng.u64()).take(len),
        1 => rand_stream(RAND_KINDS[rng.below(RAND_KINDS.len())], len, rng).into_iter().map(|x| x.abs() + level * 1e-3).collect(),
        2 => {
            // spikes 1e6 x larger than the suffix level
            let mut v = BandGen::new(BAND_REGIMES[0], level / 30.0, rng.u64()).take(len);
            for (i, x) in v.iter_mut().enumerate() {
                if i % 7 == 3 {
                    *x *= 1e6;
                }
            }
            v
        }
        _ => (0..len).map(|i| level * (1.0 + (i % 5) as f64)).collect(),
    }
}

pub fn run(ctx: &Ctx) -> Report {
    let mut jobs = Vec::new();
    let reps = ctx.pick(120usize, 14400usize);
    let mut idx = 0u64;
    for kind in N_KINDS.iter().chain(N1_KINDS.iter()) {
        for n in 1..=8usize {
            for r in 0..reps {
                idx += 1;
                jobs.push((*kind, n, r, idx));
            }
        }
        for r in 0..reps * 4 {
            idx += 1;
            jobs.push((*kind, 0, r, idx)); // 0 => sampled period
        }
    }
    let seed = ctx.seed;
    let mut rep = par_run(jobs, ctx.threads, move |(kind, n0, r, idx), rep| {
        let mut rng = Rng::derive(seed, 0xC17, *idx);
        let n = if *n0 == 0 { (rng.log_uniform(9.0, 512.99) as usize).clamp(9, 512) } else { *n0 };
        let mut p = Params::new1(*kind, n);
        if *kind == Kind::Bb {
            p.k = *rng.pick(&[0.0, 0.5, 2.0, 3.0]);
        }
        if *n0 == 0 && rng.below(6) == 0 {
            p = kind.default_params(); // built through Default::default()
            rep.count("default_configuration");
        }
        let n = p.p[0];
        let sl = suffix_len(*kind, n);
        let ext = 2 * n + 2;
        let level = *rng.pick(&[1e-2, 1.0, 37.5, 1e4]);
        let plen = match r % 4 {
            0 => rng.range(1, 3),
            1 => rng.range(n, 3 * n + 3),
            _ => rng.range(10, 2000),
        };
        // one history in forty is longer than 2^16 inputs (a maintenance step that runs every 65 536 inputs
        // must not leave anything of the far past behind either)
        let plen = if r % 40 == 7 && n <= 64 { 66_000 + rng.range(0, 3000) } else { plen };
        if plen > 60_000 {
            rep.count("pairs.history_longer_than_2^16");
        }
        let bars = !kind.has_scalar() || (*kind == Kind::Fast && r % 2 == 0);
        let (prefix, suffix_ext): (Vec<In>, Vec<In>) = if bars {
            let mut pre = BarGen::new(BAR_STYLES[r % BAR_STYLES.len()], level / 30.0, rng.u64()).take(plen);
            if r % 3 == 2 {
                for (i, b) in pre.iter_mut().enumerate() {
                    if i % 7 == 3 {
                        *b = b.scale_prices(1e6);
                        b.v *= 1e3;
                    }
                }
            }
            let suf = BarGen::new(BAR_STYLES[(r + 3) % BAR_STYLES.len()], level / 30.0, rng.u64()).take(sl + ext);
            (pre.iter().map(|b| In::B(*b)).collect(), suf.iter().map(|b| In::B(*b)).collect())
        } else {
            let pre = scalar_prefix(&mut rng, plen, *r, level);
            let suf = BandGen::new(BAND_REGIMES[(r + 5) % BAND_REGIMES.len()], level / 30.0, rng.u64()).take(sl + ext);
            (pre.iter().map(|x| In::S(*x)).collect(), suf.iter().map(|x| In::S(*x)).collect())
        };
        // the comparison-only and accumulating indicators are sign-agnostic: a fifth of their scalar pairs
        // are shifted so that histories cross zero and contain exact zeros (ratio oscillators keep positive prices)
        let zeroed_ratio = !bars && r % 5 == 4 && matches!(kind, Kind::Roc | Kind::Er);
        let (prefix, suffix_ext) = if zeroed_ratio {
            // exact zeros sprinkled into prefix and suffix: the reference price may be 0 (ROC = inf / NaN);
            // whatever the value, it may only depend on the last n+1 inputs
            let z = |k: usize, v: &In| match v {
                In::S(x) => In::S(if k % 5 == 2 { 0.0 } else { *x }),
                b => *b,
            };
            rep.count("pairs.ratio_with_exact_zeros");
            // in half of these pairs the oldest element of the suffix (the reference price of the first
            // compared output) is itself a zero
            let off = if r % 2 == 0 { 2 } else { 1 };
            (prefix.iter().enumerate().map(|(k, v)| z(k, v)).collect::<Vec<In>>(), suffix_ext.iter().enumerate().map(|(k, v)| z(k + off, v)).collect::<Vec<In>>())
        } else if !bars && r % 5 == 4 {
            // shifted down so that signs mix, with an exact zero at every fifth position (+0.0 and -0.0 in
            // turn): a zero is an input like any other and occupies a slot of the window
            let shift = level * 3.0;
            let f = |k: usize, v: &In| match v {
                In::S(x) => In::S(if k % 5 == 2 { if k % 10 == 2 { 0.0 } else { -0.0 } } else if (x - shift).abs() < 0.02 * shift { 0.0 } else { x - shift }),
                b => *b,
            };
            rep.count("pairs.mixed_sign_with_zeros");
            let off = if r % 2 == 0 { 2 } else { 0 };
            (prefix.iter().enumerate().map(|(k, v)| f(k, v)).collect::<Vec<In>>(), suffix_ext.iter().enumerate().map(|(k, v)| f(k + off, v)).collect::<Vec<In>>())
        } else {
            (prefix, suffix_ext)
        };
        // The window-only indicators (nothing but the ring: MIN, MAX, FAST, ROC, ER) must also forget ticks
        // that are not numbers at all: NaN, +-inf, f64::MAX and swings too large to represent, placed near the
        // end of the prefix so that they are still inside the window when the common suffix starts.
        let mut prefix = prefix;
        if r % 3 == 1 && matches!(kind, Kind::Min | Kind::Max | Kind::Fast | Kind::Roc | Kind::Er) && !prefix.is_empty() {
            let poison = [f64::INFINITY, f64::NAN, f64::NEG_INFINITY, 1e308, -1e308, f64::MAX];
            // the value the indicator's own ring is filled with is the interesting one: +inf for MIN, -inf for MAX
            let own_fill = match kind {
                Kind::Min => Some(f64::INFINITY),
                Kind::Max => Some(f64::NEG_INFINITY),
                Kind::Fast => Some(if r % 2 == 0 { f64::INFINITY } else { f64::NEG_INFINITY }),
                _ => None,
            };
            for j in 0..(1 + rng.below(3)) {
                let v = match own_fill {
                    Some(f) if j == 0 && r % 4 != 3 => f,
                    _ => poison[(*idx as usize + j) % poison.len()],
                };
                let back = 1 + rng.below((2 * n + 1).min(prefix.len()));
                let pos = prefix.len() - back;
                prefix[pos] = match prefix[pos] {
                    In::S(_) => In::S(v),
                    In::B(b) => In::B(crate::inst::Bar { o: v, h: v, l: v, c: v, v: b.v }),
                };
            }
            rep.count("pairs.prefix_with_nonfinite_or_overflowing_ticks");
        }
        // ... and half of those are followed by a monotone suffix, so that the extremes of the window are its
        // oldest members and every eviction forces a rescan
        let mut suffix_ext = suffix_ext;
        if r % 6 == 1 && matches!(kind, Kind::Min | Kind::Max | Kind::Fast) {
            let up = matches!(kind, Kind::Min) || (*kind == Kind::Fast && r % 4 == 1);
            for (k, x) in suffix_ext.iter_mut().enumerate() {
                let v = level * (1.0 + 0.01 * if up { k as f64 } else { -(k as f64) / (k as f64 + 50.0) * 50.0 });
                *x = match *x {
                    In::S(_) => In::S(v),
                    In::B(b) => In::B(crate::inst::Bar { o: v, h: v * 1.001, l: v * 0.999, c: v, v: b.v }),
                };
            }
            rep.count("pairs.monotone_suffix_after_poisoned_prefix");
            // half of these are sorted except for their first element (a rebound above, or a dip below, what
            // follows), and the history ends on the extreme that the end of the suffix evicts: a window that
            // is one step short of sorted, seen by the instance with the history at the very step where the
            // bare suffix has not evicted anything yet
            if r % 12 == 1 && !prefix.is_empty() {
                let (first, last) = if up { (level * 1.5, level * 0.5) } else { (level * 0.3, level * 3.0) };
                let set = |x: &mut In, v: f64| {
                    *x = match *x {
                        In::S(_) => In::S(v),
                        In::B(b) => In::B(crate::inst::Bar { o: v, h: v * 1.001, l: v * 0.999, c: v, v: b.v }),
                    }
                };
                set(&mut suffix_ext[0], first);
                let k = prefix.len() - 1;
                set(&mut prefix[k], last);
                rep.count("pairs.suffix_sorted_but_for_its_first_element");
            }
        }
        let tag = if r % 3 == 2 || (!bars && r % 4 == 2) { "after_spikes" } else { "plain" };
        check_forget(rep, &p, &prefix, &suffix_ext, tag);
        rep.count("pairs");
        rep.count(if tag == "after_spikes" { "pairs.prefix_with_1e6_spikes" } else { "pairs.plain_prefix" });
        if n >= 100 {
            rep.count("pairs.period_ge_100");
        }
        let head: Vec<f64> = prefix.iter().take(6).chain(suffix_ext.iter().take(6)).flat_map(|x| match x {
            In::S(v) => vec![*v],
            In::B(b) => b.fields().to_vec(),
        }).collect();
        rep.distinct_case(hash_f64s(*kind as u64 * 131 + n as u64, &head));
        if rep.wants_sample() && idx % 61 == 0 {
            rep.sample(json!({"indicator": p.label(), "prefix_len": prefix.len(), "prefix_head": ops_json(&prefix[..2.min(prefix.len())]), "suffix_len": sl, "extension": ext, "tag": tag}));
        }
    });
    if ctx.only.is_none() {
        for key in ["compared.at_end_of_suffix", "compared.in_extension", "pairs.prefix_with_1e6_spikes", "pairs.prefix_with_nonfinite_or_overflowing_ticks", "pairs.period_ge_100"] {
            if rep.counters.get(key).copied().unwrap_or(0) == 0 {
                rep.inconclusive.push(format!("coverage floor missed: {} = 0", key));
            }
        }
    }
    rep
}
