//! C13 — incremental accumulators do not drift from recomputation over long streams.

use crate::common::{ops_json, panic_violation, Ctx};
use crate::gen::{BandGen, Regime};
use crate::inst::{Bar, In, Inst, Kind, Out, Params};
use crate::oracles::{osc_judgements, settle, window_judgements, Judgements};
use crate::refmodel::{RefModel, RefOut};
use crate::report::{par_run, Report};
use crate::rng::Rng;
use serde_json::json;

pub const KINDS: [Kind; 9] = [Kind::Sma, Kind::Wma, Kind::Sd, Kind::Bb, Kind::Mad, Kind::Cci, Kind::Mfi, Kind::Min, Kind::Max];
pub const PERIODS: [usize; 14] = [1, 2, 3, 4, 5, 7, 8, 14, 50, 64, 67, 100, 200, 1000];

pub const RULE: &str = "SOAK: one instance fed N = 2.2*10^6 consecutive inputs without reset (MAD/CCI, which cost O(n) per input: 2.2*10^5 in quick) for SMA/WMA/SD/BB/MAD/CCI/MFI/MIN/MAX x periods {1,2,3,4,5,7,8,14,50,64,67,100,200,1000} x regimes {random walk, alternating extremes, spikes, plateaus, saw-tooth with tooth lengths 7/100/997/1000/1024, alternating exact values, quiet level with spikes, bad ticks, a walk on a tick grid and iid integers (ties, new extremes among duplicates)} x band floor m in {1e-3,1,1e6} (a seeded subset of the combinations per run; bars for CCI/MFI are built around the price path with independent high/low/close and volume over 6 decades). Judged on the first 3000 steps, every 997th step and the last, against a double-double recomputation from the harness's own copy of the window: tau(t)*M (M^2 on variances; x condition number for CCI, c<=1e6, and MFI, c<=1000); MIN/MAX exact; variance never negative/NaN. Non-trivial: every soak run (longer than the period by construction); distinct by construction (combination index).";

fn judge(p: &Params, out: &Out, r: &RefOut, js: &mut Judgements) -> usize {
    match p.kind {
        Kind::Cci => osc_judgements(p, out, r, js),
        Kind::Mfi => {
            if !(r.c[0] <= 1000.0) {
                return 1;
            }
            osc_judgements(p, out, r, js)
        }
        _ => {
            window_judgements(p, out, r, r.t, r.m, js);
            0
        }
    }
}

fn regimes() -> Vec<Regime> {
    vec![Regime::Walk, Regime::AltExtremes, Regime::Spikes, Regime::Plateau, Regime::Saw(7), Regime::Saw(100), Regime::Saw(997), Regime::Saw(1000), Regime::Saw(1024), Regime::AltExact, Regime::QuietSpikes, Regime::BadTicks, Regime::Ticks, Regime::Integer, Regime::UlpNoise, Regime::Quiet]
}

fn bar_around(c: f64, rng: &mut Rng) -> Bar {
    let h = c * (1.0 + 0.01 * rng.f());
    let l = c * (1.0 - 0.01 * rng.f());
    let o = l + (h - l) * rng.f();
    let v = match rng.below(12) {
        0 => 0.0,
        _ => rng.log_uniform(1e-1, 1e5),
    };
    Bar { o, h, l, c, v }
}

pub fn soak(rep: &mut Report, p: &Params, regime: Regime, m: f64, steps: usize, seed: u64) {
    let mut g = BandGen::new(regime, m, seed);
    let mut brng = Rng::new(seed ^ 0xBA5);
    let mut prev_bar: Option<Bar> = None;
    let mut inst = Inst::new(p);
    let mut rm = RefModel::new(p);
    let mut js: Judgements = Vec::with_capacity(4);
    let bars = !p.kind.has_scalar();
    let tag = format!("{}", regime.label());
    for i in 0..steps {
        let t = i + 1;
        let c = g.next();
        let x = if bars {
            // ~3% exact repeats of the previous bar, in bursts: typical price unchanged (tie), which
            // exercises the "no flow" slot handling of MFI and flat windows of CCI over a long run
            let b = match prev_bar {
                Some(pb) if brng.chance(0.03) || (t % 1500 < 40) => pb,
                _ => bar_around(c, &mut brng),
            };
            prev_bar = Some(b);
            In::B(b)
        } else {
            In::S(c)
        };
        let sampled = t <= 3000 || t % 997 == 0 || t == steps;
        if t == 70_001 || t == 1_000_003 {
            inst.perturb(1); // deserialize(serialize(self)): not a reset, accumulators carry over
        }
        if t == 140_001 {
            inst.perturb(0);
        }
        if t == 1801 || t == 210_001 {
            inst.perturb(2); // clone_from into a used instance (same, smaller or larger periods)
        }
        let r = rm.push_opt(&x, sampled);
        let out = match inst.feed(&x) {
            Ok(o) => o,
            Err(pn) => {
                panic_violation(rep, "C13", "c13", p, json!({"soak": {"regime": regime.label(), "m": m, "seed": seed.to_string(), "step": t}}), &pn.0);
                return;
            }
        };
        // variance / dispersion never negative or NaN — checked on every step, not only sampled ones
        if matches!(p.kind, Kind::Sd | Kind::Mad) && !(out.v[0] >= 0.0) {
            let sig = format!("{}/c13.nonneg/{}", p.kind.name(), if out.v[0].is_nan() { "nan" } else { "negative" });
            if rep.is_new_sig(&sig) {
                rep.violation(sig.clone(), format!("{} t={} regime {} m={}: output {}", p.label(), t, tag, m, out.v[0]), crate::common::replay_rerun("C13", &sig, "soak", json!({"regime": tag, "m": m, "seed": seed.to_string(), "step": t, "params": p.to_json()})));
            } else {
                rep.violation_again(&sig);
            }
            return;
        }
        if !sampled {
            continue;
        }
        js.clear();
        let sk = judge(p, &out, &r, &mut js);
        if sk > 0 {
            rep.add("skipped_ill_conditioned_or_degenerate", sk as u64);
        }
        rep.count(if t <= 3000 { "judged.first_3000" } else if t == steps { "judged.last_step" } else { "judged.every_997th" });
        // signature band on t: early (<1e5) vs late, so a known late-drift finding cannot mask an early error
        let band = if t < 100_000 { "t<1e5" } else { "t>=1e5" };
        let ok = settle(rep, "C13", "c13", p, &format!("{}/{}", tag, band), t, &js, &mut || {
            if t <= 20_000 {
                // explicit witness for short prefixes
                let mut g2 = BandGen::new(regime, m, seed);
                let mut b2 = Rng::new(seed ^ 0xBA5);
                let mut pb2: Option<Bar> = None;
                let ins: Vec<In> = (1..=t).map(|tt| { let c = g2.next(); if bars { let b = match pb2 { Some(pb) if b2.chance(0.03) || (tt % 1500 < 40) => pb, _ => bar_around(c, &mut b2) }; pb2 = Some(b); In::B(b) } else { In::S(c) } }).collect();
                ops_json(&ins)
            } else {
                json!({"soak": {"regime": regime.label(), "m": m, "seed": seed.to_string(), "step": t}})
            }
        });
        if !ok {
            return;
        }
    }
    rep.count("soak_runs_completed");
    rep.distinct_by_construction += 1;
    if rep.wants_sample() {
        rep.sample(json!({"indicator": p.label(), "regime": tag, "m": m, "steps": steps, "seed": seed.to_string()}));
    }
}

pub fn run(ctx: &Ctx) -> Report {
    // 2.2e6 > 2^21: crosses every power-of-two input count up to 2*10^6. The O(1)-per-step indicators
    // run the full length in both tiers (~0.2 s per run); MAD and CCI are O(n) per step and run
    // 2*10^5 steps in quick, the full length in thorough for n <= 50.
    let steps = 2_200_000usize;
    let ms = [1e-3, 1.0, 1e6];
    let regs = regimes();
    // full cross product = 9 kinds x 9 periods x 10 regimes x 3 m = 2430 runs; take a seeded subset
    // in quick, all of it in thorough (big periods subsampled for MAD/CCI whose cost is O(n) per step)
    let mut jobs = Vec::new();
    let mut rng = Rng::derive(ctx.seed, 0xC13, 0);
    let mut idx = 0u64;
    for kind in KINDS {
        for n in PERIODS {
            for (ri, regime) in regs.iter().enumerate() {
                for (mi, m) in ms.iter().enumerate() {
                    idx += 1;
                    let heavy = n >= 200 && matches!(kind, Kind::Mad | Kind::Cci);
                    let keep = if ctx.quick() {
                        // saw-tooth x small periods is where drift shows first: always keep those for WMA/SMA/SD
                        let hot = matches!(regime, Regime::Saw(_)) && n <= 7 && matches!(kind, Kind::Wma | Kind::Sma | Kind::Sd | Kind::Bb) && mi == 1;
                        // MIN/MAX on ulp noise and on the tick grid at the lowest band (prices around 1, where an
                        // absolute epsilon is larger than an ulp): always run
                        let hot = hot || (matches!(regime, Regime::UlpNoise | Regime::Ticks) && matches!(kind, Kind::Min | Kind::Max) && n <= 14 && mi == 0);
                        hot || (!heavy && rng.chance(0.08)) || (heavy && rng.chance(0.04))
                    } else {
                        !heavy || (ri + mi) % 5 == 0
                    };
                    if keep {
                        jobs.push((kind, n, *regime, *m, idx));
                    }
                }
            }
        }
    }
    // longest jobs first for better packing
    jobs.sort_by_key(|j| std::cmp::Reverse(j.1 * if matches!(j.0, Kind::Mad | Kind::Cci) { 10 } else { 1 }));
    let seed = ctx.seed;
    let quick = ctx.quick();
    let mut rep = par_run(jobs, ctx.threads, move |(kind, n, regime, m, idx), rep| {
        let mut p = Params::new1(*kind, *n);
        if *kind == Kind::Bb {
            p.k = [2.0, 0.5, 1.0][(*idx % 3) as usize];
        }
        let heavy_kind = matches!(kind, Kind::Mad | Kind::Cci);
        let st = if heavy_kind && (quick || *n >= 200) { if *n >= 200 { steps / 40 } else { steps / 10 } } else { steps };
        soak(rep, &p, *regime, *m, st, seed ^ idx.wrapping_mul(0x9E3779B97F4A7C15));
        rep.count(&format!("regime.{}", regime.label()));
        rep.count(&format!("period.{}", n));
    });
    rep.notes.push(format!("steps per soak run: {}", steps));
    if ctx.only.is_none() {
        for key in ["judged.first_3000", "judged.every_997th", "judged.last_step", "soak_runs_completed", "period.1", "period.1000", "regime.saw100", "regime.altextremes"] {
            if rep.counters.get(key).copied().unwrap_or(0) == 0 {
                rep.inconclusive.push(format!("coverage floor missed: {} = 0", key));
            }
        }
    }
    rep
}
