//! C09 — dispersion measures are non-negative and bands are ordered around their middle.

use crate::common::{ops_json, panic_violation, phase, Ctx};
use crate::gen::{bars5, rand_stream, BandGen, BarGen, BAND_REGIMES, BAR_STYLES, RAND_KINDS};
use crate::inst::{hexf, Bar, In, Inst, Kind, Out, Params};
use crate::refmodel::{tau, w_max, w_min};
use crate::report::{hash_f64s, par_run, Report};
use crate::rng::Rng;
use serde_json::json;
use std::collections::VecDeque;

pub const KINDS: [Kind; 14] = [Kind::Sd, Kind::Mad, Kind::Tr, Kind::Atr, Kind::Min, Kind::Max, Kind::Bb, Kind::Kc, Kind::Ce, Kind::Macd, Kind::Ppo, Kind::Sma, Kind::Wma, Kind::Ema];
pub const MULTS: [f64; 6] = [0.0, 1e-9, 1.0, 2.0, 1e6, 0.5];

pub const RULE: &str = "Seeded scalar streams of any sign and magnitude up to 1e12 (RAND family incl. cancellation-engineered huge-then-flat tails and alternating decades; band regimes) and bar streams with low<=high (valid OHLCV styles, and bars whose open/close lie anywhere, negative prices included), periods incl. 1 up to 1024, multipliers {0,1e-9,0.5,1,2,1e6}; a few streams of 1.1*10^6 (2.2*10^6 thorough) inputs with small periods; periods up to usize::MAX for the EMA family. Every step: SD, MAD >= 0 and not NaN; TR, ATR >= 0; MIN <= MAX (paired instances); lower <= average <= upper for BB/KC; CE long <= window max(high), short >= window min(low); histogram == line - signal for MACD/PPO; SMA, WMA inside [window min, window max] and EMA inside [history min, history max]; the band/exit/histogram/hull relations with slack tau(t)*M (reported separately whether they held with no slack at all). Non-trivial: stream longer than the period with >= 2 distinct values; distinct by hash of (indicator, params, stream head).";

fn violation(rep: &mut Report, p: &Params, class: &str, t: usize, detail: String, inputs: &[In], comp: usize, lo: f64, hi: f64) {
    let sig = format!("{}/c09.{}/{}", p.kind.name(), class, phase(t, p.n()));
    if rep.is_new_sig(&sig) {
        let replay = json!({"property": "C09", "sig": sig, "programs": [{"params": p.to_json(), "ops": ops_json(inputs)}],
            "check": {"type": "range", "component": comp, "lo": hexf(lo), "hi": hexf(hi)}, "detail": detail});
        rep.violation(sig, detail, replay);
    } else {
        rep.violation_again(&sig);
    }
}

/// online monitor for one instance; keeps its own copy of what it needs from the stream
struct Mon {
    p: Params,
    inst: Inst,
    t: usize,
    m: f64,
    w: VecDeque<f64>,  // documented scalar series, last n
    wh: VecDeque<f64>, // highs, last n (CE)
    wl: VecDeque<f64>,
    hmin: f64,
    hmax: f64,
    dead: bool,
}

impl Mon {
    fn new(p: &Params) -> Mon {
        let mut inst = Inst::new(p);
        // half of the monitored instances are recycled: used on unrelated data, then reset()
        if (p.p[0] + p.kind as usize) % 2 == 0 {
            for i in 0..(2 * p.max_period().min(40) + 3) {
                let v = 17.25 + (i % 7) as f64 * 3.5;
                let _ = inst.feed(&if p.kind.has_scalar() { In::S(v) } else { In::B(crate::inst::Bar { o: v, h: v + 1.0, l: v - 1.5, c: v + 0.25, v: 3.0 }) });
            }
            let _ = inst.reset();
        }
        Mon { p: *p, inst, t: 0, m: 0.0, w: VecDeque::new(), wh: VecDeque::new(), wl: VecDeque::new(), hmin: f64::INFINITY, hmax: f64::NEG_INFINITY, dead: false }
    }
    fn step(&mut self, rep: &mut Report, x: &In, hist: &[In]) -> Option<Out> {
        if self.dead {
            return None;
        }
        let kind = self.p.kind;
        let n = self.p.n();
        self.t += 1;
        let t = self.t;
        let reads = kind.reads();
        let s = match x {
            In::S(v) => {
                self.m = self.m.max(v.abs());
                *v
            }
            In::B(b) => {
                for (i, f) in b.fields().iter().enumerate() {
                    if reads[i] && i < 4 {
                        self.m = self.m.max(f.abs());
                    }
                }
                match kind {
                    Kind::Min => b.l,
                    Kind::Max => b.h,
                    _ => b.c,
                }
            }
        };
        self.w.push_back(s);
        if self.w.len() > n {
            self.w.pop_front();
        }
        if kind == Kind::Ce {
            if let In::B(b) = x {
                self.wh.push_back(b.h);
                self.wl.push_back(b.l);
                if self.wh.len() > n {
                    self.wh.pop_front();
                    self.wl.pop_front();
                }
            }
        }
        self.hmin = self.hmin.min(s);
        self.hmax = self.hmax.max(s);
        // transparent identity changes at two points of the stream
        if t == n.saturating_mul(2).saturating_add(2) {
            self.inst.perturb(1);
        }
        if t == n.saturating_mul(3).saturating_add(5) {
            self.inst.perturb(0);
        }
        if t == n.saturating_mul(4).saturating_add(7) {
            self.inst.perturb(2); // clone_from into a used instance built with the same, smaller or larger periods
        }
        let out = match self.inst.feed(x) {
            Ok(o) => o,
            Err(pn) => {
                panic_violation(rep, "C09", "c09", &self.p, ops_json(hist), &pn.0);
                self.dead = true;
                return None;
            }
        };
        let p = self.p;
        let slack = tau(t) * self.m;
        let bad = |rep: &mut Report, class: &str, detail: String, comp: usize, lo: f64, hi: f64| {
            violation(rep, &p, class, t, detail, hist, comp, lo, hi);
        };
        let mut ok = true;
        rep.evaluations += 1;
        match kind {
            Kind::Sd | Kind::Mad => {
                let v = out.v[0];
                if !(v >= 0.0) {
                    ok = false;
                    bad(rep, if v.is_nan() { "nonneg.nan" } else { "nonneg.negative" }, format!("{} t={}: {} (must be >= 0 and not NaN)", p.label(), t, v), 0, 0.0, f64::MAX);
                }
                if v == 0.0 {
                    rep.count("dispersion_exactly_zero");
                }
            }
            Kind::Tr | Kind::Atr => {
                let v = out.v[0];
                if !(v >= 0.0) {
                    ok = false;
                    bad(rep, if v.is_nan() { "nonneg.nan" } else { "nonneg.negative" }, format!("{} t={}: {} (must be >= 0)", p.label(), t, v), 0, 0.0, f64::MAX);
                }
            }
            Kind::Bb | Kind::Kc => {
                let (a, u, l) = (out.v[0], out.v[1], out.v[2]);
                if p.k >= 0.0 {
                    if l <= a && a <= u {
                        rep.count("bands_ordered_with_no_slack");
                    } else if l <= a + slack && a <= u + slack && !a.is_nan() {
                        rep.count("bands_ordered_only_within_slack");
                    } else {
                        ok = false;
                        bad(rep, "band_order", format!("{} t={}: lower {:e} average {:e} upper {:e} not ordered (slack {:e})", p.label(), t, l, a, u, slack), 0, l - slack, u + slack);
                    }
                }
            }
            Kind::Ce => {
                let (long, short) = (out.v[0], out.v[1]);
                let (mx, mn) = (w_max(self.wh.iter()), w_min(self.wl.iter()));
                if p.k >= 0.0 {
                    if long <= mx && short >= mn {
                        rep.count("exits_ordered_with_no_slack");
                    } else if long <= mx + slack && short >= mn - slack {
                        rep.count("exits_ordered_only_within_slack");
                    } else {
                        ok = false;
                        bad(rep, "exit_order", format!("{} t={}: long {:e} vs window max(high) {:e}; short {:e} vs window min(low) {:e}", p.label(), t, long, mx, short, mn), 0, f64::MIN, mx + slack);
                    }
                }
            }
            Kind::Macd | Kind::Ppo => {
                let (line, sig, hist_v) = (out.v[0], out.v[1], out.v[2]);
                let scale = self.m.max(line.abs()).max(sig.abs());
                let want = line - sig;
                if hist_v == want || (hist_v.is_nan() && want.is_nan()) {
                    rep.count("histogram_identity_exact");
                } else if (hist_v - want).abs() <= tau(t) * scale {
                    rep.count("histogram_identity_only_within_slack");
                } else {
                    ok = false;
                    bad(rep, "histogram", format!("{} t={}: histogram {:e} != line {:e} - signal {:e}", p.label(), t, hist_v, line, sig), 2, want - tau(t) * scale, want + tau(t) * scale);
                }
            }
            Kind::Sma | Kind::Wma => {
                let v = out.v[0];
                let (mn, mx) = (w_min(self.w.iter()), w_max(self.w.iter()));
                rep.ratio(if kind == Kind::Sma { "c09.SMA.hull" } else { "c09.WMA.hull" }, if slack > 0.0 { (mn - v).max(v - mx).max(0.0) / slack } else { 0.0 });
                if !(v >= mn - slack && v <= mx + slack) {
                    ok = false;
                    bad(rep, "hull", format!("{} t={}: {:e} outside window hull [{:e}, {:e}] ± {:e}", p.label(), t, v, mn, mx, slack), 0, mn - slack, mx + slack);
                }
            }
            Kind::Ema => {
                let v = out.v[0];
                rep.ratio("c09.EMA.hull", if slack > 0.0 { (self.hmin - v).max(v - self.hmax).max(0.0) / slack } else { 0.0 });
                if !(v >= self.hmin - slack && v <= self.hmax + slack) {
                    ok = false;
                    bad(rep, "hull", format!("{} t={}: {:e} outside history hull [{:e}, {:e}] ± {:e}", p.label(), t, v, self.hmin, self.hmax, slack), 0, self.hmin - slack, self.hmax + slack);
                }
            }
            _ => {}
        }
        if !ok {
            self.dead = true;
        }
        Some(out)
    }
}

fn period(rng: &mut Rng, max: usize) -> usize {
    match rng.below(8) {
        0 => 1,
        1 => 2,
        2 => 3,
        _ => (rng.log_uniform(1.0, max as f64 + 0.99) as usize).clamp(1, max),
    }
}

fn variant(kind: Kind, rng: &mut Rng) -> Params {
    // one draw in twelve is the documented default configuration (which the wrapper builds through Default::default())
    if rng.below(12) == 0 {
        return kind.default_params();
    }
    let mut p = Params::new1(kind, period(rng, 1024));
    match kind {
        Kind::Macd | Kind::Ppo => p.p = [period(rng, 300), period(rng, 300), period(rng, 100)],
        Kind::Bb | Kind::Kc | Kind::Ce => p.k = *rng.pick(&MULTS),
        _ => {}
    }
    if kind == Kind::Ce {
        p.p[0] = p.p[0].min(256);
    }
    p
}

fn drive(rep: &mut Report, inputs: &[In], kinds: &[Kind], rng: &mut Rng, head: &[f64]) {
    let mut mons: Vec<Mon> = kinds.iter().map(|k| Mon::new(&variant(*k, rng))).collect();
    // MIN/MAX pair with one shared period
    let np = period(rng, 1024);
    let mut mn = Inst::new(&Params::new1(Kind::Min, np));
    let mut mx = Inst::new(&Params::new1(Kind::Max, np));
    let mut pair_alive = true;
    for (i, x) in inputs.iter().enumerate() {
        for m in mons.iter_mut() {
            m.step(rep, x, &inputs[..=i]);
        }
        if pair_alive {
            // same stream: feed the same scalar to both (for bars: the close)
            let s = match x {
                In::S(v) => *v,
                In::B(b) => b.c,
            };
            if let (Ok(a), Ok(b)) = (mn.next_f64(s), mx.next_f64(s)) {
                rep.evaluations += 1;
                if !(a.v[0] <= b.v[0]) {
                    pair_alive = false;
                    let p = Params::new1(Kind::Min, np);
                    violation(rep, &p, "min_le_max", i + 1, format!("MIN({})={:e} > MAX({})={:e} on the same stream at t={}", np, a.v[0], np, b.v[0], i + 1), &inputs[..=i], 0, f64::MIN, b.v[0]);
                }
            }
        }
    }
    for m in &mons {
        rep.count("streams");
        if m.t > m.p.max_period() {
            rep.distinct_case(hash_f64s(m.p.kind as u64 * 131 + m.p.p[0] as u64 * 3 + m.p.p[1] as u64 + (m.p.k.to_bits() >> 40), head));
        }
        if m.p.kind.has_multiplier() {
            rep.count(&format!("multiplier.{}", m.p.k));
        }
        if m.p.p[0] == 1 {
            rep.count("period_1");
        }
    }
}

fn run_scalar(ctx: &Ctx) -> Report {
    let njobs = ctx.pick(4800, 72000);
    let seed = ctx.seed;
    let maxlen = ctx.pick(5000usize, 20000usize);
    let jobs: Vec<usize> = (0..njobs).collect();
    par_run(jobs, ctx.threads, move |idx, rep| {
        let mut rng = Rng::derive(seed, 0xC09, *idx as u64);
        let len = rng.range(40, maxlen);
        let xs: Vec<f64> = if idx % 3 != 2 {
            rand_stream(RAND_KINDS[(idx / 3) % RAND_KINDS.len()], len, &mut rng)
        } else {
            let m = *rng.pick(&[1e-3, 1.0, 1e6, 1e9]);
            let sign = if rng.chance(0.3) { -1.0 } else { 1.0 };
            // one band stream in 16 is quoted in a unit so small that prices straddle the smallest normal
            // number (2^-1024 or 2^-1028 per unit: 70 or more subnormal steps of slack at the stated τ·M)
            let tiny = (idx / 45) % 16 == 7;
            let (m, unit) = if tiny { (1.0, if (idx / 720) % 2 == 0 { 2f64.powi(-1024) } else { 2f64.powi(-1028) }) } else { (m, 1.0) };
            if tiny {
                rep.count("scalar.streams_around_the_smallest_normal_number");
            }
            BandGen::new(BAND_REGIMES[(idx / 3) % BAND_REGIMES.len()], m, rng.u64()).take(len).into_iter().map(|x| sign * x * unit).collect()
        };
        rep.count(&format!("scalar.family.{}", if idx % 3 != 2 { format!("{:?}", RAND_KINDS[(idx / 3) % RAND_KINDS.len()]) } else { "band".into() }));
        let inputs: Vec<In> = xs.iter().map(|x| In::S(*x)).collect();
        let kinds = [Kind::Sd, Kind::Mad, Kind::Tr, Kind::Atr, Kind::Bb, Kind::Kc, Kind::Macd, Kind::Ppo, Kind::Sma, Kind::Wma, Kind::Ema];
        drive(rep, &inputs, &kinds, &mut rng, &xs[..xs.len().min(64)]);
        if rep.wants_sample() && idx % 97 == 0 {
            rep.sample(json!({"phase": "scalar", "stream_head": xs[..6.min(xs.len())].to_vec(), "len": len}));
        }
    })
}

fn run_bars(ctx: &Ctx) -> Report {
    let njobs = ctx.pick(3200, 48000);
    let seed = ctx.seed;
    let maxlen = ctx.pick(4000usize, 15000usize);
    let jobs: Vec<usize> = (0..njobs).collect();
    par_run(jobs, ctx.threads, move |idx, rep| {
        let mut rng = Rng::derive(seed, 0xC09B, *idx as u64);
        let len = rng.range(30, maxlen);
        let bars: Vec<Bar> = if idx % 3 == 0 {
            // only low <= high is guaranteed; open/close anywhere; possibly negative prices
            bars5(len, &mut rng).into_iter().map(|b| Bar { h: b.h.max(b.l), l: b.h.min(b.l), ..b }).collect()
        } else {
            let base = *rng.pick(&[1e-2, 1.0, 50.0, 1e4, 1e8]);
            BarGen::new(BAR_STYLES[idx % BAR_STYLES.len()], base, rng.u64()).take(len)
        };
        rep.count(if idx % 3 == 0 { "bars.low_le_high_only" } else { "bars.valid_ohlcv" });
        let inputs: Vec<In> = bars.iter().map(|b| In::B(*b)).collect();
        let head: Vec<f64> = bars.iter().take(16).flat_map(|b| b.fields()).collect();
        let kinds = [Kind::Tr, Kind::Atr, Kind::Kc, Kind::Ce, Kind::Sd, Kind::Mad, Kind::Bb, Kind::Macd, Kind::Ppo, Kind::Sma, Kind::Wma, Kind::Ema];
        drive(rep, &inputs, &kinds, &mut rng, &head);
    })
}

fn run_huge_periods(ctx: &Ctx) -> Report {
    let jobs = crate::common::huge_period_params();
    let seed = ctx.seed;
    par_run(jobs, ctx.threads, move |p, rep| {
        if !KINDS.contains(&p.kind) || p.k < 0.0 || Inst::try_new(p).is_err() {
            return;
        }
        let mut rng = Rng::derive(seed, 0xC09E, p.p[0] as u64 ^ p.p[1] as u64);
        let xs = rand_stream(RAND_KINDS[rng.below(RAND_KINDS.len())], 300, &mut rng);
        let inputs: Vec<In> = xs.iter().map(|x| In::S(*x)).collect();
        let mut mon = Mon { p: *p, inst: Inst::new(p), t: 0, m: 0.0, w: VecDeque::new(), wh: VecDeque::new(), wl: VecDeque::new(), hmin: f64::INFINITY, hmax: f64::NEG_INFINITY, dead: false };
        for (i, x) in inputs.iter().enumerate() {
            mon.step(rep, x, &inputs[..=i]);
        }
        rep.count("huge_period_streams");
    })
}

/// a few long streams with small periods (the hull / ordering checks cost O(period) per step)
fn run_long(ctx: &Ctx) -> Report {
    let steps = ctx.pick(1_100_000usize, 2_200_000usize);
    let seed = ctx.seed;
    let jobs: Vec<usize> = (0..ctx.pick(8, 16)).collect();
    par_run(jobs, ctx.threads, move |idx, rep| {
        let mut rng = Rng::derive(seed, 0xC09F, *idx as u64);
        let regime = [crate::gen::Regime::Plateau, crate::gen::Regime::Walk, crate::gen::Regime::AltExtremes, crate::gen::Regime::QuietSpikes][idx % 4];
        let sign = if idx % 3 == 2 { -1.0 } else { 1.0 };
        let mut g = BandGen::new(regime, 1.0, rng.u64());
        let mut mons: Vec<Mon> = Vec::new();
        for kind in [Kind::Sma, Kind::Wma, Kind::Ema, Kind::Sd, Kind::Mad, Kind::Bb, Kind::Macd, Kind::Atr, Kind::Kc] {
            let mut p = Params::new1(kind, [1usize, 2, 5, 14][rng.below(4)]);
            match kind {
                Kind::Macd => p.p = [3, 7, 2],
                Kind::Bb | Kind::Kc => p.k = 2.0,
                _ => {}
            }
            mons.push(Mon { p, inst: Inst::new(&p), t: 0, m: 0.0, w: VecDeque::new(), wh: VecDeque::new(), wl: VecDeque::new(), hmin: f64::INFINITY, hmax: f64::NEG_INFINITY, dead: false });
        }
        // the witness for a long run is the generator spec, not an explicit op list
        let dummy: [In; 0] = [];
        for _ in 0..steps {
            let x = In::S(sign * g.next());
            for m in mons.iter_mut() {
                m.step(rep, &x, &dummy);
            }
        }
        rep.count("long_streams");
        rep.distinct_by_construction += 1;
    })
}

pub fn run(ctx: &Ctx) -> Report {
    let mut rep = Report::new();
    if ctx.phase_enabled("long") {
        rep.merge(run_long(ctx));
    }
    if ctx.phase_enabled("huge") {
        rep.merge(run_huge_periods(ctx));
    }
    if ctx.phase_enabled("scalar") {
        rep.merge(run_scalar(ctx));
    }
    if ctx.phase_enabled("bars") {
        rep.merge(run_bars(ctx));
    }
    if ctx.only.is_none() {
        for key in ["dispersion_exactly_zero", "bands_ordered_with_no_slack", "exits_ordered_with_no_slack", "histogram_identity_exact", "period_1", "scalar.family.CancelTail", "bars.low_le_high_only", "multiplier.0", "multiplier.1000000"] {
            if rep.counters.get(key).copied().unwrap_or(0) == 0 {
                rep.inconclusive.push(format!("coverage floor missed: {} = 0", key));
            }
        }
    }
    rep
}
