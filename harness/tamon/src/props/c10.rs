//! C10 — feeding a bar equals feeding its documented price field; other fields ignored.

use crate::common::{ops_json_ops, replay_twin, Ctx};
use crate::gen::{bars5, hostile_scalar, BarGen, BAR_STYLES};
use crate::inst::{rel_close, Bar, Inst, Kind, Op, Params, Res, ALL_KINDS};
use crate::refmodel::EPS;
use crate::report::{hash_f64s, par_run, Report};
use crate::rng::Rng;
use serde_json::json;

pub const CLOSE_KINDS: [Kind; 11] = [Kind::Sma, Kind::Ema, Kind::Wma, Kind::Sd, Kind::Mad, Kind::Rsi, Kind::Macd, Kind::Ppo, Kind::Er, Kind::Bb, Kind::Roc];
pub const ONE_PRICE_KINDS: [Kind; 5] = [Kind::Fast, Kind::Slow, Kind::Tr, Kind::Atr, Kind::Kc];

pub const RULE: &str = "Twin instances in lock-step over bar streams whose five fields vary independently (BARS5: not consistent OHLC, signs mixed) and over valid OHLCV streams: (a) next(&bar) vs next(bar.close()) for SMA/EMA/WMA/SD/MAD/RSI/MACD/PPO/ER/BB/ROC, vs low for MIN, vs high for MAX, within 1e-12 relative (bit-identity reported); (b) one-price bars (o=h=l=c=x) vs the scalar path on x for FAST/SLOW/TR/ATR/KC (KC additionally within a few ulps of the largest |x| for (x+x+x)/3); (c) next(&bar) vs next(&bar') where bar' differs only in fields the indicator is not documented to read (replaced by arbitrary values incl. NaN/inf), within 1e-12 relative, all 22 indicators (bit-identity reported; a stricter bit-for-bit requirement would also fire on instance-to-instance nondeterminism, which is C05's claim); (d) the harness Bar vs a second user type with a different layout vs ta::DataItem carrying the same numbers, same tolerance, all 22 indicators; (e) exhaustively, every sequence of a fixed depth over the edge alphabet {-2,-0.0,0.0,0.75,nextafter(0.75),3e-17,3.5} for periods 1..=3, relations (a) and (b). Random streams include exact zeros, signed zeros, one-ulp neighbours and price units from 1e-20 to 1e15. Parameters sampled (periods 1..=300, multipliers). Non-trivial: stream longer than the period; distinct by hash of (relation, indicator, params, stream head).";

const REL: f64 = 1e-12;

fn period(rng: &mut Rng) -> usize {
    match rng.below(8) {
        0 => 1,
        1 => 2,
        2 => 3,
        _ => (rng.log_uniform(1.0, 300.99) as usize).clamp(1, 300),
    }
}
fn variant(kind: Kind, rng: &mut Rng) -> Params {
    // one draw in twelve is the documented default configuration (which the wrapper builds through Default::default())
    if rng.below(12) == 0 {
        return kind.default_params();
    }
    let mut p = Params::new1(kind, period(rng));
    match kind {
        Kind::Macd | Kind::Ppo => p.p = [period(rng), period(rng), period(rng).min(50)],
        Kind::Slow => p.p[1] = period(rng).min(50),
        Kind::Bb | Kind::Kc | Kind::Ce => p.k = *rng.pick(&[0.0, 0.5, 2.0, 3.0, -1.0]),
        _ => {}
    }
    p
}

/// run ops_a on A and ops_b on B in lock-step; compare outputs at every step
#[allow(clippy::too_many_arguments)]
fn twin(rep: &mut Report, p: &Params, relation: &str, ops_a: &[Op], ops_b: &[Op], rel: f64, abs_per_m: f64, require_bits: bool) -> bool {
    let mut a = Inst::new(p);
    let mut b = Inst::new(p);
    let mut m: f64 = 0.0;
    let mut bit_identical = true;
    for i in 0..ops_a.len() {
        if ops_a.len() > 12 && i == ops_a.len() / 2 {
            a.perturb(i);
        }
        let ra = a.apply(&ops_a[i]);
        let rb = b.apply(&ops_b[i]);
        if let Op::NextF(x) = &ops_b[i] {
            m = m.max(x.abs());
        }
        rep.evaluations += 1;
        let bad = match (&ra, &rb) {
            (Res::Out(x), Res::Out(y)) => {
                if !x.bits_eq(y) {
                    bit_identical = false;
                }
                let mut bad = None;
                for c in 0..x.n {
                    let okc = if require_bits {
                        x.v[c].to_bits() == y.v[c].to_bits() || (x.v[c].is_nan() && y.v[c].is_nan())
                    } else {
                        rel_close(x.v[c], y.v[c], rel) || (x.v[c] - y.v[c]).abs() <= abs_per_m * m
                    };
                    if !okc {
                        bad = Some((c, x.v[c], y.v[c]));
                        break;
                    }
                }
                bad
            }
            (Res::Panic(_), Res::Panic(_)) => None,
            (Res::Panic(_), _) | (_, Res::Panic(_)) => Some((0, f64::NAN, f64::NAN)),
            _ => None,
        };
        if let Some((c, xa, xb)) = bad {
            let sig = format!("{}/c10.{}/differs", p.kind.name(), relation);
            if rep.is_new_sig(&sig) {
                let detail = format!("{} step {} component {}: {} gives {:e} (A) vs {:e} (B); results {:?} / {:?}", p.label(), i + 1, p.kind.out_names()[c.min(p.kind.n_out() - 1)], relation, xa, xb, ra, rb);
                let replay = replay_twin("C10", &sig, p, ops_json_ops(&ops_a[..=i]), p, ops_json_ops(&ops_b[..=i]), c, "id", 1.0, 0.0, abs_per_m * m, if require_bits { 0.0 } else { rel }, &detail);
                rep.violation(sig, detail, replay);
            } else {
                rep.violation_again(&sig);
            }
            return false;
        }
    }
    rep.count(if bit_identical { "twins_bit_identical" } else { "twins_equal_within_tolerance_but_not_bitwise" });
    true
}

/// values chosen to sit on the branch points of "robustness" guards: exact +-0, a pair of neighbouring
/// floats below 1 (range 1.1e-16), tiny magnitudes, a negative value, an ordinary one
pub const EDGE: [f64; 7] = [-2.0, -0.0, 0.0, 0.75, 0.75 + 1.1102230246251565e-16, 3e-17, 3.5];

fn run_enum(ctx: &Ctx) -> Report {
    let depth = ctx.pick(5usize, 6usize);
    let mut jobs = Vec::new();
    for kind in CLOSE_KINDS.iter().chain([Kind::Min, Kind::Max].iter()).chain(ONE_PRICE_KINDS.iter()) {
        for n in 1..=3usize {
            for first in 0..EDGE.len() {
                jobs.push((*kind, n, first));
            }
        }
    }
    par_run(jobs, ctx.threads, move |(kind, n, first), rep| {
        let mut p = Params::new1(*kind, *n);
        match kind {
            Kind::Macd | Kind::Ppo => p.p = [*n, *n + 1, 2],
            Kind::Slow => p.p = [*n, 2, 0],
            Kind::Bb | Kind::Kc => p.k = 2.0,
            _ => {}
        }
        let one_price = ONE_PRICE_KINDS.contains(kind);
        fn rec(depth: usize, seq: &mut Vec<f64>, f: &mut dyn FnMut(&[f64])) {
            f(seq);
            if seq.len() < depth {
                for v in EDGE {
                    seq.push(v);
                    rec(depth, seq, f);
                    seq.pop();
                }
            }
        }
        let mut seq = vec![EDGE[*first]];
        rec(depth, &mut seq, &mut |xs| {
            // only full-depth sequences are run (every prefix is compared step by step inside `twin`)
            if xs.len() < depth {
                return;
            }
            let ops_x: Vec<Op> = xs.iter().map(|x| Op::NextF(*x)).collect();
            let ops_b: Vec<Op> = xs
                .iter()
                .enumerate()
                .map(|(i, x)| {
                    if one_price {
                        Op::NextBar(Bar { o: *x, h: *x, l: *x, c: *x, v: i as f64 })
                    } else {
                        // the documented field carries x; every other field carries something else
                        let mut b = Bar { o: 9.0 - i as f64, h: 7.5, l: -1.25, c: 4.0 + i as f64, v: 3.0 };
                        match kind {
                            Kind::Min => b.l = *x,
                            Kind::Max => b.h = *x,
                            _ => b.c = *x,
                        }
                        Op::NextBar(b)
                    }
                })
                .collect();
            let abs_per_m = if *kind == Kind::Kc { 8.0 * EPS * (1.0 + p.k.abs()) } else { 0.0 };
            twin(rep, &p, if one_price { "one_price_bar_vs_scalar" } else { "bar_vs_documented_field" }, &ops_b, &ops_x, REL, abs_per_m, false);
            rep.count("enum.edge_value_sequences");
            rep.distinct_by_construction += 1;
        });
    })
}

/// every sequence (fixed depth) of *valid* bars over {-1, -0.0, 0.0, 1}^5: the harness bar, the second
/// user type and ta::DataItem must give bit-identical outputs (signed zeros and negative prices included)
fn run_enum_implementors(ctx: &Ctx) -> Report {
    let vals = [-1.0f64, -0.0, 0.0, 1.0];
    let mut alphabet: Vec<Bar> = Vec::new();
    for o in vals {
        for h in vals {
            for l in vals {
                for c in vals {
                    for v in [-0.0f64, 0.0, 2.0] {
                        let b = Bar { o, h, l, c, v };
                        if b.is_valid() {
                            alphabet.push(b);
                        }
                    }
                }
            }
        }
    }
    let depth = ctx.pick(2usize, 3usize);
    let mut jobs = Vec::new();
    for kind in ALL_KINDS {
        for n in 1..=2usize {
            if kind.n_periods() == 0 && n > 1 {
                continue;
            }
            jobs.push((kind, n));
        }
    }
    let alen = alphabet.len();
    par_run(jobs, ctx.threads, move |(kind, n), rep| {
        let mut p = Params::new1(*kind, *n);
        match kind {
            Kind::Macd | Kind::Ppo => p.p = [*n, *n + 1, 2],
            Kind::Slow => p.p = [*n, 2, 0],
            Kind::Bb | Kind::Kc | Kind::Ce => p.k = 2.0,
            _ => {}
        }
        let total = alen.pow(depth as u32);
        // all sequences for depth 2; a deterministic 1-in-k subsample for depth 3 to bound the run
        let stride = if depth >= 3 { 7 } else { 1 };
        let mut code = 0usize;
        while code < total {
            let mut c = code;
            let mut seq = Vec::with_capacity(depth);
            for _ in 0..depth {
                seq.push(alphabet[c % alen]);
                c /= alen;
            }
            let ob: Vec<Op> = seq.iter().map(|b| Op::NextBar(*b)).collect();
            let o2: Vec<Op> = seq.iter().map(|b| Op::NextBar2(*b)).collect();
            let oi: Vec<Op> = seq.iter().map(|b| Op::NextItem(*b)).collect();
            twin(rep, &p, "bar_vs_dataitem", &ob, &oi, REL, 0.0, false);
            twin(rep, &p, "bar_vs_second_user_type", &ob, &o2, REL, 0.0, false);
            rep.count("enum.implementor_sequences");
            rep.distinct_by_construction += 1;
            code += stride;
        }
    })
}

pub fn run(ctx: &Ctx) -> Report {
    let mut rep = run_random(ctx);
    rep.merge(run_enum(ctx));
    rep.merge(run_enum_implementors(ctx));
    if ctx.only.is_none() && rep.counters.get("enum.edge_value_sequences").copied().unwrap_or(0) == 0 {
        rep.inconclusive.push("coverage floor missed: enum.edge_value_sequences = 0".into());
    }
    rep
}

fn run_random(ctx: &Ctx) -> Report {
    let njobs = ctx.pick(3200, 64000);
    let seed = ctx.seed;
    let maxlen = ctx.pick(1500usize, 6000usize);
    let jobs: Vec<usize> = (0..njobs).collect();
    let mut rep = par_run(jobs, ctx.threads, move |idx, rep| {
        let mut rng = Rng::derive(seed, 0xC10, *idx as u64);
        let len = rng.range(20, maxlen);
        let five = bars5(len, &mut rng);
        // one stream in eight carries bad ticks: every 211th bar is quoted 10^7 times too high in all price
        // fields (what it leaves behind in a running sum must not differ between the two feed forms)
        let bad_ticks = idx % 8 == 3;
        let five: Vec<Bar> = if bad_ticks {
            rep.count("streams.with_bad_ticks");
            five.iter().enumerate().map(|(i, b)| if i % 211 == 17 { b.scale_prices(1e7) } else { *b }).collect()
        } else {
            five
        };
        let head5: Vec<f64> = five.iter().take(12).flat_map(|b| b.fields()).collect();
        let ops5: Vec<Op> = five.iter().map(|b| Op::NextBar(*b)).collect();
        // (a) bar vs documented scalar field
        for kind in CLOSE_KINDS.iter().chain([Kind::Min, Kind::Max].iter()) {
            let mut p = variant(*kind, &mut rng);
            if bad_ticks && p.kind.n_periods() == 1 && !p.is_default() {
                // long windows on these streams (a fast path may exist only above some window length)
                p.p[0] = 128 + (idx / 8) % 173;
            }
            let ops_b: Vec<Op> = five
                .iter()
                .map(|b| {
                    Op::NextF(match kind {
                        Kind::Min => b.l,
                        Kind::Max => b.h,
                        _ => b.c,
                    })
                })
                .collect();
            twin(rep, &p, "bar_vs_documented_field", &ops5, &ops_b, REL, 0.0, false);
            rep.count("relation.bar_vs_documented_field");
            if len > p.max_period() {
                rep.distinct_case(hash_f64s(1000 + *kind as u64 * 7 + p.p[0] as u64 * 131, &head5));
            }
        }
        // (b) one-price bars vs scalar path; some values are repeated or followed by their
        // neighbouring float so that windows with a zero or one-ulp range occur
        let mut xs: Vec<f64> = five.iter().map(|b| b.c).collect();
        let nonfinite_ticks = idx % 4 == 1;
        for i in 1..xs.len() {
            match rng.below(12) {
                0 => xs[i] = xs[i - 1],
                1 => xs[i] = f64::from_bits(xs[i - 1].to_bits().wrapping_add(1)),
                // a quarter of the streams carry negative zeros. Non-finite ticks are outside this monitor's domain:
                // on the unchanged tree TrueRange's bar path drops a NaN previous close (f64::max ignores NaN)
                // while its scalar path propagates it, and the statement's "1e-12 relative" says nothing there
                2 if nonfinite_ticks && rng.chance(0.15) => xs[i] = -0.0,
                _ => {}
            }
        }
        if nonfinite_ticks {
            rep.count("one_price_streams_with_negative_zero_ticks");
        }
        let ops_one: Vec<Op> = xs.iter().map(|x| Op::NextBar(Bar { o: *x, h: *x, l: *x, c: *x, v: rng.f() })).collect();
        let ops_x: Vec<Op> = xs.iter().map(|x| Op::NextF(*x)).collect();
        for kind in ONE_PRICE_KINDS {
            let p = variant(kind, &mut rng);
            let abs_per_m = if kind == Kind::Kc { 8.0 * EPS * (1.0 + p.k.abs()) } else { 0.0 };
            twin(rep, &p, "one_price_bar_vs_scalar", &ops_one, &ops_x, REL, abs_per_m, false);
            rep.count("relation.one_price_bar_vs_scalar");
            if len > p.max_period() {
                rep.distinct_case(hash_f64s(2000 + kind as u64 * 7 + p.p[0] as u64 * 131, &xs[..xs.len().min(48)]));
            }
        }
        // (c) perturb fields the indicator is not documented to read
        for kind in ALL_KINDS {
            let p = variant(kind, &mut rng);
            let reads = kind.reads();
            let pert: Vec<Op> = five
                .iter()
                .map(|b| {
                    let mut f = b.fields();
                    for (i, x) in f.iter_mut().enumerate() {
                        if !reads[i] {
                            *x = if rng.chance(0.3) { hostile_scalar(&mut rng) } else { rng.uniform(-1e6, 1e6) };
                        }
                    }
                    Op::NextBar(Bar::from_fields(f))
                })
                .collect();
            twin(rep, &p, "unread_fields_perturbed", &ops5, &pert, REL, 0.0, false);
            rep.count("relation.unread_fields_perturbed");
            if len > p.max_period() {
                rep.distinct_case(hash_f64s(3000 + kind as u64 * 7 + p.p[0] as u64 * 131, &head5));
            }
        }
        // (d) Bar vs Bar2 vs DataItem on valid bars (DataItem can only hold valid ones)
        let base = *rng.pick(&[1e-2, 1.0, 50.0, 1e4]);
        let valid = BarGen::new(BAR_STYLES[idx % BAR_STYLES.len()], base, rng.u64()).take(len.min(2000));
        let headv: Vec<f64> = valid.iter().take(12).flat_map(|b| b.fields()).collect();
        let ov: Vec<Op> = valid.iter().map(|b| Op::NextBar(*b)).collect();
        let ov2: Vec<Op> = valid.iter().map(|b| Op::NextBar2(*b)).collect();
        let ovi: Vec<Op> = valid.iter().map(|b| Op::NextItem(*b)).collect();
        let o52: Vec<Op> = five.iter().map(|b| Op::NextBar2(*b)).collect();
        for kind in ALL_KINDS {
            let p = variant(kind, &mut rng);
            twin(rep, &p, "bar_vs_second_user_type", &ov, &ov2, REL, 0.0, false);
            twin(rep, &p, "bar_vs_dataitem", &ov, &ovi, REL, 0.0, false);
            twin(rep, &p, "bar_vs_second_user_type", &ops5, &o52, REL, 0.0, false);
            rep.add("relation.implementor_types", 3);
            if valid.len() > p.max_period() {
                rep.distinct_case(hash_f64s(4000 + kind as u64 * 7 + p.p[0] as u64 * 131, &headv));
            }
        }
        if rep.wants_sample() && idx % 101 == 0 {
            rep.sample(json!({"bars5_head": ops_json_ops(&ops5[..3.min(ops5.len())]), "len": len, "relations": ["bar_vs_documented_field", "one_price_bar_vs_scalar", "unread_fields_perturbed", "bar_vs_second_user_type", "bar_vs_dataitem"]}));
        }
    });
    if ctx.only.is_none() {
        for key in ["relation.bar_vs_documented_field", "relation.one_price_bar_vs_scalar", "relation.unread_fields_perturbed", "relation.implementor_types", "twins_bit_identical"] {
            if rep.counters.get(key).copied().unwrap_or(0) == 0 {
                rep.inconclusive.push(format!("coverage floor missed: {} = 0", key));
            }
        }
    }
    rep
}
