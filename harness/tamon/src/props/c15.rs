//! C15 — composite indicators agree with wiring their public building blocks by hand.

use crate::common::{ops_json, replay_rerun, Ctx};
use crate::dd::dd;
use crate::gen::{rand_stream, BandGen, BarGen, BAND_REGIMES, BAR_STYLES, RAND_KINDS};
use crate::inst::{In, Inst, Kind, Params};
use crate::refmodel::tau;
use crate::report::{hash_f64s, par_run, Report};
use crate::rng::Rng;
use serde_json::json;

pub const RULE: &str = "Each composite (BB, SLOW, ATR, MACD, PPO, KC, CE, CCI) runs in lock-step with separately constructed public building blocks (SMA, SD, EMA, FAST, TR, ATR, MIN, MAX, MAD) that the harness combines as documented, on seeded finite scalar streams of any sign (RAND and band families) and valid OHLCV bars with typical price != close, parameters sampled (periods 1..=300, multipliers {0,0.5,2,3,-1}); a fifth of the streams are repeated in a tiny (1e-12) or huge (1e9) price unit or negated; every component compared at every step within tau(t)*M (M^2*k^2 on the Bollinger half-width squared; x condition number, c<=1e6, for CCI and PPO); bit-identity is reported. This is a differential oracle between two code paths of the crate and does not use the harness's reference models. Non-trivial: stream longer than every period; distinct by hash of (composite, params, stream head).";

fn per(rng: &mut Rng) -> usize {
    match rng.below(8) {
        0 => 1,
        1 => 2,
        2 => 3,
        _ => (rng.log_uniform(1.0, 300.99) as usize).clamp(1, 300),
    }
}

struct Cmp<'a> {
    rep: &'a mut Report,
    p: Params,
    t: usize,
    alive: bool,
    bitwise: bool,
}
impl<'a> Cmp<'a> {
    fn check(&mut self, name: &str, got: f64, want: f64, tol: f64, hist: &[In]) {
        if !self.alive {
            return;
        }
        self.rep.evaluations += 1;
        if got.to_bits() != want.to_bits() && !(got.is_nan() && want.is_nan()) {
            self.bitwise = false;
        }
        let err = (dd(got) - dd(want)).abs().to_f64();
        let key = format!("c15.{}.{}", self.p.kind.name(), name);
        self.rep.ratio(&key, if tol > 0.0 { err / tol } else if err == 0.0 { 0.0 } else { f64::INFINITY });
        let bad = got.is_nan() != want.is_nan() || (!got.is_nan() && !(err <= tol));
        if bad {
            self.alive = false;
            let sig = format!("{}/c15.{}/mismatch", self.p.kind.name(), name);
            if self.rep.is_new_sig(&sig) {
                let detail = format!("{} t={} {}: composite {:e} vs hand-wired parts {:e}, |err| {:e} > tol {:e}", self.p.label(), self.t, name, got, want, err, tol);
                let replay = replay_rerun("C15", &sig, &detail, json!({"params": self.p.to_json(), "ops": ops_json(hist)}));
                self.rep.violation(sig, detail, replay);
            } else {
                self.rep.violation_again(&sig);
            }
        }
    }
}

fn mk(kind: Kind, n: usize) -> Inst {
    Inst::new(&Params::new1(kind, n))
}

/// run one composite against its parts over `xs`
pub fn run_composite(rep: &mut Report, p: &Params, xs: &[In]) {
    let kind = p.kind;
    let n = p.p[0];
    let k = p.k;
    let mut comp = Inst::new(p);
    // every other composite is recycled (used on unrelated data, then reset()); the parts are always fresh
    if (xs.len() + p.p[0]) % 2 == 0 {
        for x in xs.iter().take(2 * p.max_period().min(40) + 3).rev() {
            let y = match x {
                In::S(v) => In::S(v * 0.75 + 1.0),
                In::B(b) => In::B(crate::inst::Bar { v: b.v + 2.0, ..b.scale_prices(0.75) }),
            };
            let _ = comp.feed(&y);
        }
        let _ = comp.reset();
        rep.count("composites_recycled(reset_after_prefix)");
    }
    // parts
    let mut sma = mk(Kind::Sma, n);
    let mut sd = mk(Kind::Sd, n);
    let mut mad = mk(Kind::Mad, n);
    let mut fast = mk(Kind::Fast, n);
    let mut tr = Inst::new(&Kind::Tr.default_params());
    let mut atr = mk(Kind::Atr, n);
    let mut mn = mk(Kind::Min, n);
    let mut mx = mk(Kind::Max, n);
    let mut e1 = mk(Kind::Ema, if matches!(kind, Kind::Slow) { p.p[1] } else { n });
    let mut e2 = mk(Kind::Ema, if matches!(kind, Kind::Macd | Kind::Ppo) { p.p[1] } else { n });
    let mut e3 = mk(Kind::Ema, if matches!(kind, Kind::Macd | Kind::Ppo) { p.p[2] } else { n });
    let mut m: f64 = 0.0;
    let mut c = Cmp { rep, p: *p, t: 0, alive: true, bitwise: true };
    let mut ppo_c_sig = crate::refmodel::BoundEma::new(p.p[2].max(1));
    for (i, x) in xs.iter().enumerate() {
        let t = i + 1;
        c.t = t;
        let hist = &xs[..=i];
        match x {
            In::S(v) => m = m.max(v.abs()),
            In::B(b) => m = m.max(b.h.abs()).max(b.l.abs()).max(b.c.abs()),
        }
        let tq = tau(t);
        if t == xs.len() / 3 + 2 {
            comp.perturb(1);
        }
        if t == (2 * xs.len()) / 3 + 2 {
            comp.perturb(0);
        }
        if t == xs.len() / 2 + 2 {
            comp.perturb(2);
        }
        let out = match comp.feed(x) {
            Ok(o) => o,
            Err(pn) => {
                // the composite gave no output at all for an input its parts are about to digest: report it here
                // if the parts do (a panic of a part as well is C12's business alone)
                let parts_ok = match kind {
                    Kind::Bb => sma.feed(x).is_ok() && sd.feed(x).is_ok(),
                    Kind::Slow => fast.feed(x).is_ok(),
                    Kind::Atr | Kind::Kc | Kind::Ce => tr.feed(x).is_ok() && mx.feed(x).is_ok() && mn.feed(x).is_ok(),
                    Kind::Cci => sma.feed(x).is_ok() && mad.feed(x).is_ok(),
                    _ => e1.feed(x).is_ok(),
                };
                if parts_ok {
                    let sig = format!("{}/c15.composite_panics_where_parts_run/panic", kind.name());
                    if c.rep.is_new_sig(&sig) {
                        let detail = format!("{} t={}: the composite panicked ({}) on an input its public parts process normally", p.label(), t, pn.0);
                        let replay = replay_rerun("C15", &sig, &detail, json!({"params": p.to_json(), "ops": ops_json(hist)}));
                        c.rep.violation(sig, detail, replay);
                    } else {
                        c.rep.violation_again(&sig);
                    }
                }
                return;
            }
        };
        let s = match x {
            In::S(v) => *v,
            In::B(b) => b.c,
        };
        macro_rules! v {
            ($e:expr) => {
                match $e {
                    Ok(o) => o.v[0],
                    Err(_) => return,
                }
            };
        }
        match kind {
            Kind::Bb => {
                let a = v!(sma.next_f64(s));
                let d = v!(sd.next_f64(s));
                c.check("average_vs_SMA", out.v[0], a, tq * m, hist);
                let hw = (dd(out.v[1]) - dd(out.v[2])) / dd(2.0);
                let want = (dd(k) * dd(d)).sqr();
                let tol = tq * m * m * (k * k) + 16.0 * f64::EPSILON * (m + k.abs() * d) * (k.abs() * d) + 1e-300;
                c.check("halfwidth_sq_vs_k_SD", hw.sqr().to_f64(), want.to_f64(), tol, hist);
                // the bands are average +- k*SD with the sign of k as given: for k < 0 "upper" lies below
                // (rounding cannot flip the order of x + e and x - e)
                let signed = if hw.to_f64() == 0.0 { 0.0 } else { hw.to_f64() * if k < 0.0 { -1.0 } else { 1.0 } };
                if signed.is_finite() {
                    c.check("band_orientation", signed, hw.to_f64().abs(), 0.0, hist);
                }
            }
            Kind::Slow => {
                let f = v!(fast.feed(x));
                let want = v!(e1.next_f64(f));
                c.check("vs_EMA_of_FAST", out.v[0], want, tq * 100.0f64.max(m), hist);
            }
            Kind::Atr => {
                let r = v!(tr.feed(x));
                let want = v!(e1.next_f64(r));
                c.check("vs_EMA_of_TR", out.v[0], want, tq * m, hist);
            }
            Kind::Macd => {
                let f = v!(e1.next_f64(s));
                let sl = v!(e2.next_f64(s));
                let line = f - sl;
                let sig = v!(e3.next_f64(line));
                c.check("macd_vs_EMAs", out.v[0], line, tq * m, hist);
                c.check("signal_vs_EMA_of_line", out.v[1], sig, tq * m, hist);
                c.check("histogram", out.v[2], line - sig, tq * m, hist);
            }
            Kind::Ppo => {
                let f = v!(e1.next_f64(s));
                let sl = v!(e2.next_f64(s));
                let line = (f - sl) / sl * 100.0;
                let sig = v!(e3.next_f64(line));
                let cond = m / sl.abs();
                let cs = ppo_c_sig.push(cond);
                if cond <= 1e6 && cs <= 1e6 {
                    c.check("ppo_vs_EMAs", out.v[0], line, tq * cond.max(1.0) * 100.0, hist);
                    c.check("signal_vs_EMA_of_ppo", out.v[1], sig, tq * cs.max(1.0) * 100.0, hist);
                    c.check("histogram", out.v[2], line - sig, tq * cond.max(cs).max(1.0) * 100.0, hist);
                } else {
                    c.rep.count("skipped_ill_conditioned");
                }
            }
            Kind::Kc => {
                let price = match x {
                    In::S(v) => *v,
                    In::B(b) => (b.c + b.h + b.l) / 3.0,
                };
                let avg = v!(e1.next_f64(price));
                let a = v!(atr.feed(x));
                let kk = k.abs().max(1.0);
                c.check("average_vs_EMA", out.v[0], avg, tq * m, hist);
                c.check("upper_vs_EMA_plus_k_ATR", out.v[1], avg + a * k, tq * m * kk, hist);
                c.check("lower_vs_EMA_minus_k_ATR", out.v[2], avg - a * k, tq * m * kk, hist);
            }
            Kind::Ce => {
                if let In::B(b) = x {
                    let a = v!(atr.feed(x)) * k;
                    let hi = v!(mx.next_f64(b.h));
                    let lo = v!(mn.next_f64(b.l));
                    let kk = k.abs().max(1.0);
                    c.check("long_vs_MAX_minus_k_ATR", out.v[0], hi - a, tq * m * kk, hist);
                    c.check("short_vs_MIN_plus_k_ATR", out.v[1], lo + a, tq * m * kk, hist);
                }
            }
            Kind::Cci => {
                if let In::B(b) = x {
                    let tp = (b.c + b.h + b.l) / 3.0;
                    let a = v!(sma.next_f64(tp));
                    let d = v!(mad.next_f64(tp));
                    let want = if d == 0.0 { 0.0 } else { (tp - a) / (0.015 * d) };
                    let cond = if d == 0.0 { 1.0 } else { m / d };
                    if cond <= 1e6 {
                        c.check("vs_SMA_and_MAD_of_typical_price", out.v[0], want, tq * cond.max(1.0) / 0.015, hist);
                    } else {
                        c.rep.count("skipped_ill_conditioned");
                    }
                }
            }
            _ => {}
        }
        if !c.alive {
            return;
        }
    }
    let bitwise = c.bitwise;
    rep.count(if bitwise { "streams_bit_identical_to_hand_wiring" } else { "streams_within_tolerance_not_bitwise" });
}

fn variant(kind: Kind, rng: &mut Rng) -> Params {
    // one draw in twelve is the documented default configuration (which the wrapper builds through Default::default())
    if rng.below(12) == 0 {
        return kind.default_params();
    }
    let mut p = Params::new1(kind, per(rng));
    match kind {
        Kind::Macd | Kind::Ppo => p.p = [per(rng), per(rng), per(rng).min(60)],
        Kind::Slow => p.p[1] = per(rng).min(60),
        Kind::Bb | Kind::Kc | Kind::Ce => p.k = *rng.pick(&[0.0, 0.5, 2.0, 3.0, -1.0, 2.1, 0.1, 1.618]),
        _ => {}
    }
    p
}

pub fn run(ctx: &Ctx) -> Report {
    let njobs = ctx.pick(9600, 144000);
    let seed = ctx.seed;
    let maxlen = ctx.pick(12000usize, 40000usize);
    let jobs: Vec<usize> = (0..njobs).collect();
    let mut rep = par_run(jobs, ctx.threads, move |idx, rep| {
        let mut rng = Rng::derive(seed, 0xC15, *idx as u64);
        // one stream in 200 runs past 2^16 inputs (maintenance branches of the parts or of the composite)
        let len = if idx % 200 == 7 { 70_000 } else { rng.range(30, maxlen) };
        let bars = idx % 2 == 1;
        let inputs: Vec<In> = if bars {
            let base = *rng.pick(&[1e-2, 1.0, 50.0, 1e4]);
            BarGen::new(BAR_STYLES[(idx / 2) % BAR_STYLES.len()], base, rng.u64()).take(len).iter().map(|b| In::B(*b)).collect()
        } else if idx % 4 == 0 {
            rand_stream(RAND_KINDS[(idx / 4) % RAND_KINDS.len()], len, &mut rng).iter().map(|x| In::S(*x)).collect()
        } else {
            let m = *rng.pick(&[1e-3, 1.0, 37.5, 1e6]);
            BandGen::new(BAND_REGIMES[(idx / 4) % BAND_REGIMES.len()], m, rng.u64()).take(len).iter().map(|x| In::S(*x)).collect()
        };
        // finite prices just below overflow (one-signed, in [6.5e307, 8.5e307]) for the composites whose parts
        // only difference and average them: the hand-wired EMA / TrueRange parts stay finite, so must the composite
        let near_max = !bars && idx % 16 == 10;
        let inputs: Vec<In> = if near_max {
            rep.count("streams.near_f64_max");
            let sign = if rng.chance(0.5) { -1.0 } else { 1.0 };
            (0..len.min(500)).map(|i| In::S(sign * if i % 7 == 3 { 6.5e307 } else { 6.5e307 + 2e307 * rng.f() })).collect()
        } else {
            inputs
        };
        // a sixteenth of the streams mix the two feed forms on one instance (ATR and KC take both): bars and
        // bare closes in turn, as a program does that has full bars for some sessions only
        let mixed = bars && idx % 16 == 13;
        let inputs: Vec<In> = if mixed {
            rep.count("streams.mixed_bar_and_scalar_feeds");
            inputs.iter().enumerate().map(|(i, x)| match x {
                In::B(b) if (i / 3) % 2 == 1 => In::S(b.c),
                o => *o,
            }).collect()
        } else {
            inputs
        };
        // another sixteenth of the bar streams print an exact zero close now and then (a spread or a rebased
        // series touching zero; the bar stays valid: low <= 0 = close <= high)
        let zero_close = bars && idx % 16 == 5;
        let inputs: Vec<In> = if zero_close {
            rep.count("streams.bars_with_exact_zero_closes");
            inputs.iter().enumerate().map(|(i, x)| match x {
                In::B(b) if i % 11 == 5 => In::B(crate::inst::Bar { c: 0.0, l: b.l.min(0.0), h: b.h.max(0.0), ..*b }),
                o => *o,
            }).collect()
        } else {
            inputs
        };
        let head: Vec<f64> = inputs.iter().take(16).flat_map(|x| match x {
            In::S(v) => vec![*v],
            In::B(b) => b.fields().to_vec(),
        }).collect();
        for kind in [Kind::Bb, Kind::Slow, Kind::Atr, Kind::Macd, Kind::Ppo, Kind::Kc, Kind::Ce, Kind::Cci] {
            if !bars && !kind.has_scalar() {
                continue;
            }
            // PPO on mixed-sign streams is judged only where its slow EMA is away from zero
            // (condition number <= 1e6), like the property says
            let mut p = variant(kind, &mut rng);
            if mixed && !matches!(kind, Kind::Atr | Kind::Kc) {
                continue;
            }
            if near_max {
                if !matches!(kind, Kind::Atr | Kind::Macd | Kind::Kc | Kind::Ppo) {
                    continue;
                }
                if p.k.abs() > 3.0 {
                    p.k = 3.0;
                }
            }
            run_composite(rep, &p, &inputs);
            if idx % 5 == 0 && !near_max {
                // the same stream in a tiny / huge price unit, and negated (spreads, de-meaned series)
                let f = *rng.pick(&[1e-12, 1e9, -1.0, -1e-3]);
                {
                    // a negative factor swaps high and low so that the bar stays a valid bar (low <= close <= high)
                    let scaled: Vec<In> = inputs.iter().map(|x| match x {
                        In::S(v) => In::S(v * f),
                        In::B(b) if f < 0.0 => In::B(crate::inst::Bar { o: b.o * f, h: b.l * f, l: b.h * f, c: b.c * f, v: b.v }),
                        In::B(b) => In::B(b.scale_prices(f)),
                    }).collect();
                    run_composite(rep, &p, &scaled);
                    rep.count(if f < 0.0 { "streams.negated" } else { "streams.rescaled_unit" });
                }
            }
            rep.count(&format!("composite.{}", kind.name()));
            if len > p.max_period() {
                rep.distinct_case(hash_f64s(kind as u64 * 131 + p.p[0] as u64 * 7 + p.p[1] as u64, &head));
            }
        }
        if rep.wants_sample() && idx % 173 == 0 {
            rep.sample(json!({"stream_head": ops_json(&inputs[..3.min(inputs.len())]), "len": len}));
        }
    });
    if ctx.only.is_none() {
        for k in ["BB", "SLOW", "ATR", "MACD", "PPO", "KC", "CE", "CCI"] {
            if rep.counters.get(&format!("composite.{}", k)).copied().unwrap_or(0) == 0 {
                rep.inconclusive.push(format!("coverage floor missed: composite.{} = 0", k));
            }
        }
    }
    rep
}
