//! C16 — DataItem builder accepts exactly the consistent bars and returns what was set.

use crate::common::{replay_rerun, Ctx};
use crate::inst::{guarded, hexf, Bar};
use crate::report::{par_run, Report};
use crate::rng::Rng;
use serde_json::json;
use ta::errors::TaError;
use ta::{Close, DataItem, High, Low, Open, Volume};

pub const RULE: &str = "EXHAUSTIVE: all 10^5 five-tuples over the lattice {-inf,-2,-1,-0.0,0.0,1,2,3,+inf,NaN} for (open,high,low,close,volume) x all 32 subsets of the five setters (in canonical order); for complete subsets on the 10^3-tuple sub-lattice {-1,0.0,1,2,NaN,...} additionally all 120 setter orders, and programs with repeated setters (the last value must win; every field first set to each of the ten lattice values); every sequence of setter calls of length <= 6 (8 thorough) over the five setters (repeated calls, proper subsets called many times), with a consistent and an inconsistent value assignment. NEIGHBOURS: for 8 anchors all 3^4 price tuples over the anchor and the floats just below and above it (one ulp outside the range is outside) and degenerate ranges with the body elsewhere. RANDOM: 2*10^6 (quick) / 4*10^7 (thorough) finite tuples (consistent and inconsistent). Oracle (IEEE comparisons evaluated by the harness): Incomplete iff some setter was never called; else Invalid iff not (l<=o && l<=c && l<=h && h>=o && h>=c && v>=0); else Ok and the five getters return the last value set bit-exactly, clone == item, an existing item assigned with clone_from == item; the five price traits called through a generic bound must return the same bits (observed directly, independent of any indicator). Every (tuple, subset, order) is a distinct case by construction; non-trivial = all of them (the rule has no trivial cases: each exercises a different branch combination).";

pub const LATTICE: [f64; 10] = [f64::NEG_INFINITY, -2.0, -1.0, -0.0, 0.0, 1.0, 2.0, 3.0, f64::INFINITY, f64::NAN];

#[derive(Debug, PartialEq, Clone, Copy)]
pub enum Expect {
    Incomplete,
    Invalid,
    Ok,
}

pub fn expected(vals: &[Option<f64>; 5]) -> Expect {
    if vals.iter().any(|v| v.is_none()) {
        return Expect::Incomplete;
    }
    let (o, h, l, c, v) = (vals[0].unwrap(), vals[1].unwrap(), vals[2].unwrap(), vals[3].unwrap(), vals[4].unwrap());
    if l <= o && l <= c && l <= h && h >= o && h >= c && v >= 0.0 {
        Expect::Ok
    } else {
        Expect::Invalid
    }
}

/// program = sequence of (field index, value); later calls overwrite earlier ones
pub fn check_program(rep: &mut Report, prog: &[(usize, f64)], tag: &str) {
    let mut last: [Option<f64>; 5] = [None; 5];
    for (f, v) in prog {
        last[*f] = Some(*v);
    }
    let want = expected(&last);
    rep.evaluations += 1;
    let prog2 = prog.to_vec();
    let res = guarded(move || {
        let mut b = DataItem::builder();
        for (f, v) in &prog2 {
            b = match f {
                0 => b.open(*v),
                1 => b.high(*v),
                2 => b.low(*v),
                3 => b.close(*v),
                _ => b.volume(*v),
            };
        }
        b.build()
    });
    let fail = |rep: &mut Report, class: &str, detail: String| {
        let sig = format!("DATAITEM/c16.{}/{}", class, tag);
        if rep.is_new_sig(&sig) {
            const NAMES: [&str; 5] = ["open", "high", "low", "close", "volume"];
            let pj: Vec<_> = prog.iter().map(|(f, v)| json!({"setter": NAMES[*f], "value": hexf(*v)})).collect();
            rep.violation(sig.clone(), detail.clone(), replay_rerun("C16", &sig, &detail, json!({"program": pj})));
        } else {
            rep.violation_again(&sig);
        }
    };
    match res {
        Err(p) => fail(rep, "panic", format!("builder program {:?} panicked: {}", prog, p.0)),
        Ok(r) => {
            let got = match &r {
                Ok(_) => Expect::Ok,
                Err(TaError::DataItemIncomplete) => Expect::Incomplete,
                Err(TaError::DataItemInvalid) => Expect::Invalid,
                Err(e) => {
                    fail(rep, "wrong_error", format!("builder program {:?} returned {:?}", prog, e));
                    return;
                }
            };
            // the error value must also *compare* as what it is: a client writes `== Err(DataItemInvalid)` or
            // `assert_ne!` as readily as `matches!`
            if let Err(e) = &r {
                let as_eq = [*e == TaError::DataItemIncomplete, *e == TaError::DataItemInvalid, *e == TaError::InvalidParameter];
                let as_match = [matches!(e, TaError::DataItemIncomplete), matches!(e, TaError::DataItemInvalid), matches!(e, TaError::InvalidParameter)];
                if as_eq != as_match {
                    fail(rep, "error_equality", format!("builder program {:?} returned {:?}, which compares equal to [Incomplete, Invalid, InvalidParameter] as {:?}", prog, e, as_eq));
                    return;
                }
            }
            match want {
                Expect::Ok => rep.count("expect.ok"),
                Expect::Invalid => rep.count("expect.invalid"),
                Expect::Incomplete => rep.count("expect.incomplete"),
            }
            if got != want {
                let class = format!("{:?}_instead_of_{:?}", got, want).to_lowercase();
                fail(rep, &class, format!("builder program {:?}: build() gave {:?}, the statement requires {:?}", prog, got, want));
                return;
            }
            if let Ok(item) = r {
                let g = [item.open(), item.high(), item.low(), item.close(), item.volume()];
                for i in 0..5 {
                    if g[i].to_bits() != last[i].unwrap().to_bits() {
                        fail(rep, "getter", format!("builder program {:?}: getter {} returns {:e}, last value set {:e}", prog, ["open", "high", "low", "close", "volume"][i], g[i], last[i].unwrap()));
                        return;
                    }
                }
                if item.clone() != item {
                    fail(rep, "clone_ne", format!("builder program {:?}: clone() != item", prog));
                }
                // Clone::clone_from into an existing, different item is a clone too
                let mut other = DataItem::builder().open(5.0).high(6.5).low(4.25).close(5.5).volume(7.75).build().expect("harness: reference item");
                other.clone_from(&item);
                let h = [other.open(), other.high(), other.low(), other.close(), other.volume()];
                if other != item || (0..5).any(|i| h[i].to_bits() != g[i].to_bits()) {
                    fail(rep, "clone_from_ne", format!("builder program {:?}: an item assigned with clone_from reads {:?}, the source {:?}", prog, h, g));
                }
            }
        }
    }
}

const FIELDS: [usize; 5] = [0, 1, 2, 3, 4];

fn permutations(items: &[usize]) -> Vec<Vec<usize>> {
    if items.len() <= 1 {
        return vec![items.to_vec()];
    }
    let mut out = Vec::new();
    for i in 0..items.len() {
        let mut rest = items.to_vec();
        let x = rest.remove(i);
        for mut p in permutations(&rest) {
            p.insert(0, x);
            out.push(p);
        }
    }
    out
}

fn run_lattice(ctx: &Ctx) -> Report {
    // jobs: first two coordinates
    let mut jobs = Vec::new();
    for a in 0..10 {
        for b in 0..10 {
            jobs.push((a, b));
        }
    }
    let perms = permutations(&FIELDS);
    par_run(jobs, ctx.threads, move |(a, b), rep| {
        let sub: [usize; 5] = [2, 4, 5, 6, 9]; // sub-lattice {-1, 0.0, 1, 2, NaN} for the order enumeration
        for c in 0..10 {
            for d in 0..10 {
                for e in 0..10 {
                    let vals = [LATTICE[*a], LATTICE[*b], LATTICE[c], LATTICE[d], LATTICE[e]];
                    for subset in 0u32..32 {
                        let prog: Vec<(usize, f64)> = (0..5).filter(|i| subset & (1 << i) != 0).map(|i| (i, vals[i])).collect();
                        check_program(rep, &prog, "lattice");
                        rep.distinct_by_construction += 1;
                    }
                    // all 120 orders on the sub-lattice (5^5 = 3125 tuples)
                    if sub.contains(a) && sub.contains(b) && sub.contains(&c) && sub.contains(&d) && sub.contains(&e) {
                        for perm in &perms {
                            let prog: Vec<(usize, f64)> = perm.iter().map(|i| (*i, vals[*i])).collect();
                            check_program(rep, &prog, "orders");
                            rep.distinct_by_construction += 1;
                        }
                        rep.count("sublattice_tuples_with_all_120_orders");
                        // repeated setters: a garbage first value for every field, then the real one
                        let mut prog: Vec<(usize, f64)> = (0..5).map(|i| (i, LATTICE[(i * 3 + c) % 10])).collect();
                        prog.extend((0..5).rev().map(|i| (i, vals[i])));
                        check_program(rep, &prog, "repeated_setters");
                        // one field first set to each lattice value, then the whole tuple: only the last call counts,
                        // whatever was passed before (a rejected value must not stick)
                        for i in 0..5 {
                            for gval in LATTICE.iter() {
                                let mut prog: Vec<(usize, f64)> = vec![(i, *gval)];
                                prog.extend((0..5).map(|q| (q, vals[q])));
                                check_program(rep, &prog, "repeated_setters");
                                rep.distinct_by_construction += 1;
                            }
                        }
                        // repeated setter on an incomplete program
                        let prog2 = vec![(0, vals[0]), (0, vals[1]), (3, vals[3]), (3, vals[2])];
                        check_program(rep, &prog2, "repeated_setters");
                        rep.distinct_by_construction += 2;
                    }
                }
            }
        }
    })
}

/// every sequence of setter calls of length 0..=L over the five setters: repeated calls, proper
/// subsets called many times, any order. Values: the k-th call passes VALS[field][k % 2].
fn run_sequences(ctx: &Ctx) -> Report {
    let maxlen = ctx.pick(6usize, 8usize);
    let jobs: Vec<usize> = (0..25).collect(); // first two calls
    par_run(jobs, ctx.threads, move |j, rep| {
        // two value assignments: a consistent bar, and one whose second choice is inconsistent
        let vals: [[[f64; 2]; 5]; 2] = [
            [[2.0, 1.5], [3.0, 2.5], [1.0, 1.25], [2.5, 2.0], [10.0, 0.0]],
            [[2.0, 9.0], [3.0, 0.5], [1.0, 4.0], [2.5, f64::NAN], [10.0, -1.0]],
        ];
        fn rec(maxlen: usize, calls: &mut Vec<usize>, f: &mut dyn FnMut(&[usize])) {
            f(calls);
            if calls.len() < maxlen {
                for s in 0..5 {
                    calls.push(s);
                    rec(maxlen, calls, f);
                    calls.pop();
                }
            }
        }
        let mut calls = vec![j / 5, j % 5];
        rec(maxlen, &mut calls, &mut |cs| {
            for va in &vals {
                let prog: Vec<(usize, f64)> = cs.iter().enumerate().map(|(k, f)| (*f, va[*f][(k / 2) % 2])).collect();
                check_program(rep, &prog, "call_sequences");
                rep.distinct_by_construction += 1;
            }
            rep.count("setter_call_sequences");
        });
        if *j == 0 {
            // the empty program and the five single-call programs
            check_program(rep, &[], "call_sequences");
            for f in 0..5 {
                check_program(rep, &[(f, 1.0)], "call_sequences");
            }
        }
    })
}

fn run_random(ctx: &Ctx) -> Report {
    let total = ctx.pick(2_000_000usize, 40_000_000usize);
    let chunks = 64;
    let seed = ctx.seed;
    let jobs: Vec<usize> = (0..chunks).collect();
    par_run(jobs, ctx.threads, move |ci, rep| {
        let mut rng = Rng::derive(seed, 0xC16, *ci as u64);
        for k in 0..total / chunks {
            let s = rng.log_uniform(1e-6, 1e9);
            let mut v = [0.0f64; 5];
            match k % 4 {
                0 => {
                    // consistent
                    let l = s * rng.f();
                    let h = l + s * rng.f();
                    v = [rng.uniform(l, h), h, l, rng.uniform(l, h), s * rng.f()];
                    if k % 8 == 0 {
                        v[0] = l;
                        v[3] = h;
                    }
                }
                1 => {
                    for x in v.iter_mut() {
                        *x = rng.uniform(-s, s);
                    }
                }
                2 => {
                    // consistent but for exactly one conjunct
                    let l = s * (0.1 + rng.f());
                    let h = l + s * rng.f();
                    v = [rng.uniform(l, h), h, l, rng.uniform(l, h), s * rng.f()];
                    match rng.below(6) {
                        0 => v[0] = l * 0.999,
                        1 => v[3] = l * 0.999,
                        2 => v[2] = h * 1.001,
                        3 => v[0] = h * 1.001,
                        4 => v[3] = h * 1.001,
                        _ => v[4] = -v[4] - 1e-300,
                    }
                }
                _ => {
                    for x in v.iter_mut() {
                        *x = (rng.below(7) as f64 - 2.0) * s;
                    }
                }
            }
            let order = rng.below(120);
            let mut idx: Vec<usize> = vec![0, 1, 2, 3, 4];
            // cheap random permutation
            let mut o = order;
            for i in (1..5).rev() {
                idx.swap(i, o % (i + 1));
                o /= i + 1;
            }
            let prog: Vec<(usize, f64)> = idx.iter().map(|i| (*i, v[*i])).collect();
            check_program(rep, &prog, "random");
            let b = Bar { o: v[0], h: v[1], l: v[2], c: v[3], v: v[4] };
            if b.is_valid() && k % 16 == 0 {
                // the five price traits, called through a generic bound (what an indicator sees), must
                // return what the inherent getters return - observed directly, without relying on any
                // indicator being correct
                fn via_traits<T: Open + High + Low + Close + Volume>(t: &T) -> [u64; 5] {
                    [t.open().to_bits(), t.high().to_bits(), t.low().to_bits(), t.close().to_bits(), t.volume().to_bits()]
                }
                let ok = match b.to_item() {
                    Some(item) => via_traits(&item) == [b.o.to_bits(), b.h.to_bits(), b.l.to_bits(), b.c.to_bits(), b.v.to_bits()],
                    None => false,
                };
                let okv = true;
                rep.evaluations += 1;
                rep.count("items_fed_to_indicators");
                if !(ok && okv) {
                    let sig = "DATAITEM/c16.trait_getters/mismatch".to_string();
                    if rep.is_new_sig(&sig) {
                        rep.violation(sig.clone(), format!("DataItem built from {:?}: the Open/High/Low/Close/Volume traits do not return its fields", b), replay_rerun("C16", &sig, "trait getters", json!({"bar": b.to_json()})));
                    } else {
                        rep.violation_again(&sig);
                    }
                }
            }
        }
        rep.add("random_tuples", (total / chunks) as u64);
        rep.distinct_by_construction += (total / chunks) as u64;
    })
}

/// Neighbouring floats: the comparisons are exact, so a price one ulp outside the range is outside it. For
/// each anchor a in {0.3, 1.0, 1.5, 100.1, 1e-20, 0.0, -2.5, 6e15} all 3^4 price tuples over {a-, a, a+} (the
/// floats just below and above a), plus tuples whose high == low while open == close lies elsewhere, with
/// volumes {0, -0.0, 1, f64::MIN_POSITIVE, -f64::MIN_POSITIVE}.
fn run_neighbours(_ctx: &Ctx) -> Report {
    let mut rep = Report::new();
    let next_up = |x: f64| if x == 0.0 { f64::from_bits(1) } else if x > 0.0 { f64::from_bits(x.to_bits() + 1) } else { f64::from_bits(x.to_bits() - 1) };
    let next_down = |x: f64| if x == 0.0 { -f64::from_bits(1) } else if x > 0.0 { f64::from_bits(x.to_bits() - 1) } else { f64::from_bits(x.to_bits() + 1) };
    for a in [0.3f64, 1.0, 1.5, 100.1, 1e-20, 0.0, -2.5, 6e15] {
        let vals = [next_down(a), a, next_up(a)];
        for o in vals {
            for h in vals {
                for l in vals {
                    for c in vals {
                        for v in [0.0, -0.0, 1.0, f64::MIN_POSITIVE, -f64::MIN_POSITIVE] {
                            check_program(&mut rep, &[(0, o), (1, h), (2, l), (3, c), (4, v)], "neighbours");
                            rep.distinct_by_construction += 1;
                        }
                    }
                }
            }
        }
        // a degenerate range with the body elsewhere
        for body in [next_up(a), next_down(a), a + 2.0, a - 2.0] {
            check_program(&mut rep, &[(0, body), (1, a), (2, a), (3, body), (4, 1.0)], "neighbours");
            check_program(&mut rep, &[(1, a), (3, body), (2, a), (0, body), (4, 0.0)], "neighbours");
            rep.distinct_by_construction += 2;
        }
    }
    rep.count("neighbour_tuples");
    rep
}

pub fn run(ctx: &Ctx) -> Report {
    let mut rep = Report::new();
    if ctx.phase_enabled("neighbours") {
        rep.merge(run_neighbours(ctx));
    }
    if ctx.phase_enabled("lattice") {
        rep.merge(run_lattice(ctx));
    }
    if ctx.phase_enabled("random") {
        rep.merge(run_random(ctx));
    }
    if ctx.phase_enabled("sequences") {
        rep.merge(run_sequences(ctx));
    }
    rep.sample(json!({"program": [["open", 1.0], ["high", 2.0], ["low", -0.0], ["close", 2.0], ["volume", -0.0]], "expected": "Ok (low <= open, -0.0 volume >= 0)"}));
    rep.sample(json!({"program": [["open", 1.0], ["high", "NaN"], ["low", 1.0], ["close", 1.0], ["volume", 0.0]], "expected": "DataItemInvalid"}));
    rep.sample(json!({"program": [["open", "NaN"], ["close", 1.0]], "expected": "DataItemIncomplete"}));
    if ctx.only.is_none() {
        for key in ["expect.ok", "expect.invalid", "expect.incomplete", "sublattice_tuples_with_all_120_orders", "items_fed_to_indicators", "setter_call_sequences"] {
            if rep.counters.get(key).copied().unwrap_or(0) == 0 {
                rep.inconclusive.push(format!("coverage floor missed: {} = 0", key));
            }
        }
    }
    rep
}
