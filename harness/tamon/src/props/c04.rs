//! C04 — reset() returns every indicator to a state indistinguishable from a fresh one.

use crate::common::{ops_json_ops, replay_twin, Ctx};
use crate::gen::{hostile_bar, hostile_scalar, BarGen, BarStyle};
use crate::inst::{rel_close, Bar, Inst, Kind, Op, Params, Res, ALL_KINDS};
use crate::report::{fnv, par_run, Report};
use crate::rng::Rng;
use serde_json::json;

pub const RULE: &str = "For all 22 indicators: (0) one instance reset 255/256/257/65535/65536/65537 times with sessions of 0..=3 inputs after a first session that wraps the window, then compared with a fresh one; (a) every history of depth <= d over {next a, next b, next NaN, next +inf, reset} (scalar and bar forms) for periods 1..=4, followed by reset (single or double) and a continuation of 3n+3 fresh inputs (positive, signed, or - one in five - containing NaN and an infinity) fed in lock-step to a newly constructed twin; (a') the same enumeration over {next a, next b, reset, serialize-deserialize-swap, clone-swap} (a reset directly after a restore or clone); (a'') periods up to usize::MAX for the allocation-free indicators; (b) random histories up to thousands of operations mixing ordinary and non-finite/extreme inputs with repeated resets at random cursor positions. Oracle: every continuation output component within 1e-12 relative of the fresh twin's (bit-identity reported), Display/period/multiplier equal before and after reset and equal to the constructor arguments, reset of a fresh instance changes nothing. Non-trivial: history contains at least one next before the reset; distinct by construction (enumeration) or by hash of the op history.";

const REL: f64 = 1e-12;

fn nan_bar() -> Bar {
    Bar { o: 1.0, h: f64::NAN, l: 1.0, c: f64::NAN, v: f64::NAN }
}
fn inf_bar() -> Bar {
    Bar { o: 1.0, h: f64::INFINITY, l: 1.0, c: f64::INFINITY, v: f64::INFINITY }
}

/// the small op alphabet in scalar or bar form
fn alphabet(bars: bool) -> Vec<Op> {
    if bars {
        vec![
            Op::NextBar(Bar { o: 10.0, h: 12.0, l: 8.0, c: 9.5, v: 3.0 }),
            Op::NextBar(Bar { o: 20.0, h: 21.0, l: 19.0, c: 20.5, v: 1.0 }),
            Op::NextBar(nan_bar()),
            Op::NextBar(inf_bar()),
            Op::Reset,
        ]
    } else {
        vec![Op::NextF(1.5), Op::NextF(-7.0), Op::NextF(f64::NAN), Op::NextF(f64::INFINITY), Op::Reset]
    }
}

/// the wider alphabet of the second enumeration: the order of reset relative to a restore or a clone
fn alphabet_lifecycle(bars: bool) -> Vec<Op> {
    let mut a = alphabet(bars);
    a.remove(3);
    a.remove(2);
    a.push(Op::SerDeSwap);
    a.push(Op::CloneSwap);
    a
}

/// continuation, different from anything in the histories. Odd salts give a *signed*
/// continuation whose first input is zero or negative (the first comparison an indicator makes after a
/// reset is against its initial state, e.g. OBV's "previous close" of 0).
fn continuation(bars: bool, len: usize, salt: u64) -> Vec<Op> {
    let mut c = continuation_finite(bars, len, salt);
    // every fifth continuation also carries non-finite inputs ("the same subsequent inputs" is not
    // restricted to finite ones): a NaN first or third, an infinity later
    if salt % 5 == 3 {
        let nf = |v: f64, bars: bool| if bars { Op::NextBar(Bar { o: v, h: v, l: v, c: v, v }) } else { Op::NextF(v) };
        let at = if salt % 2 == 0 { 0 } else { 2.min(len - 1) };
        c[at] = nf(f64::NAN, bars);
        if len > 5 {
            c[len / 2] = nf(if salt % 3 == 0 { f64::INFINITY } else { f64::NEG_INFINITY }, bars);
        }
    }
    // ... and every seventh bar continuation opens with a crossed bar (high below low: a user's bar type may
    // present one; it is still "the same subsequent input" for both instances)
    if bars && salt % 7 == 4 {
        if let Op::NextBar(b) = c[0] {
            if b.h.is_finite() && b.l.is_finite() && b.h > b.l {
                c[0] = Op::NextBar(Bar { h: b.l, l: b.h, ..b });
            }
        }
    }
    c
}

fn continuation_finite(bars: bool, len: usize, salt: u64) -> Vec<Op> {
    let signed = salt % 2 == 1;
    if bars {
        // every third continuation on a tick grid (highs, lows and closes that tie with what came before the reset)
        let mut g = BarGen::new(if salt % 3 == 1 { BarStyle::TickGrid } else { BarStyle::Mixed }, 1.0, 0xC0FFEE ^ salt);
        (0..len)
            .map(|i| {
                let b = g.next();
                Op::NextBar(if !signed {
                    b
                } else if i == 0 && salt % 4 == 1 {
                    Bar { c: 0.0, l: b.l.min(0.0), ..b }
                } else if i % 3 != 2 {
                    b.shift_prices(-45.0)
                } else {
                    b
                })
            })
            .collect()
    } else {
        let mut r = Rng::new(0xBEEF ^ salt);
        (0..len)
            .map(|i| {
                let x = 3.25 + (i as f64) * 0.75 * if i % 3 == 0 { -1.0 } else { 1.0 } + r.f();
                Op::NextF(if !signed { x } else if i == 0 && salt % 4 == 1 { 0.0 } else { x - 6.0 })
            })
            .collect()
    }
}

struct Meta {
    display: Option<String>,
    period: Option<Option<usize>>,
    mult: Option<Option<u64>>,
}
fn meta(i: &mut Inst) -> Meta {
    Meta { display: i.display().ok(), period: i.period().ok(), mult: i.multiplier().ok().map(|m| m.map(f64::to_bits)) }
}

/// run `history` on A, reset (once or twice), then feed `cont` to A and to a fresh twin F, comparing.
/// Returns true when everything agreed.
pub fn check_history(rep: &mut Report, p: &Params, history: &[Op], cont: &[Op], double_reset: bool, tag: &str) -> bool {
    let mut a = Inst::new(p);
    let before = meta(&mut a);
    let expected_display = p.expected_display();
    let mut ok = true;
    let sig_base = format!("{}/c04", p.kind.name());
    let fail = |rep: &mut Report, class: &str, detail: String, full_a: &[Op], full_b: &[Op], comp: usize| {
        let sig = format!("{}.{}/{}", sig_base, class, tag);
        if rep.is_new_sig(&sig) {
            let replay = replay_twin("C04", &sig, p, ops_json_ops(full_a), p, ops_json_ops(full_b), comp, "id", 1.0, 0.0, 0.0, REL, &detail);
            rep.violation(sig, detail, replay);
        } else {
            rep.violation_again(&sig);
        }
    };
    for (i, op) in history.iter().enumerate() {
        if let Res::Panic(m) = a.apply(op) {
            // totality is C12's claim; here a panic prevents the comparison
            fail(rep, "panic", format!("{} panicked in history at op {}: {}", p.label(), i, m), &history[..=i], &[], 0);
            return false;
        }
    }
    let mut full_a: Vec<Op> = history.to_vec();
    full_a.push(Op::Reset);
    if a.reset().is_err() {
        fail(rep, "panic", format!("{} reset panicked", p.label()), &full_a, &[], 0);
        return false;
    }
    if double_reset {
        full_a.push(Op::Reset);
        let _ = a.reset();
    }
    let after = meta(&mut a);
    rep.evaluations += 1;
    if before.display != after.display || before.period != after.period || before.mult != after.mult {
        ok = false;
        fail(rep, "params_changed", format!("{}: display/period/multiplier changed by reset: {:?} -> {:?}", p.label(), before.display, after.display), &full_a, &[], 0);
    }
    if after.display.as_deref() != Some(expected_display.as_str()) {
        ok = false;
        fail(rep, "display", format!("{}: Display after reset {:?}, expected {:?}", p.label(), after.display, expected_display), &full_a, &[], 0);
    }
    let mut f = Inst::new(p);
    let mut bit_identical = true;
    for (i, op) in cont.iter().enumerate() {
        full_a.push(op.clone());
        let ra = a.apply(op);
        let rf = f.apply(op);
        rep.evaluations += 1;
        match (&ra, &rf) {
            (Res::Out(x), Res::Out(y)) => {
                if !x.bits_eq(y) {
                    bit_identical = false;
                }
                for c in 0..x.n {
                    if !rel_close(x.v[c], y.v[c], REL) {
                        let detail = format!(
                            "{}: after reset, continuation step {} component {}: {:e} vs fresh {:e} (history {} ops)",
                            p.label(), i + 1, p.kind.out_names()[c], x.v[c], y.v[c], history.len()
                        );
                        fail(rep, "diverges", detail, &full_a, &cont[..=i], c);
                        return false;
                    }
                }
            }
            (Res::Panic(m), _) | (_, Res::Panic(m)) => {
                fail(rep, "panic", format!("{} panicked in continuation: {}", p.label(), m), &full_a, &cont[..=i], 0);
                return false;
            }
            _ => {}
        }
    }
    rep.count(if bit_identical { "continuations_bit_identical" } else { "continuations_equal_within_1e-12_but_not_bitwise" });
    ok
}

fn param_variants(kind: Kind, n: usize) -> Params {
    let mut p = Params::new1(kind, n);
    match kind {
        Kind::Macd | Kind::Ppo => p.p = [n, n + 2, (n + 1) / 2 + 1],
        Kind::Slow => p.p = [n, (n % 3) + 1, 0],
        Kind::Bb | Kind::Kc | Kind::Ce => p.k = [2.0, 0.5, -1.0, 3.0][n % 4],
        _ => {}
    }
    p
}

fn run_enum(ctx: &Ctx) -> Report {
    let depth = ctx.pick(6, 9);
    let mut jobs = Vec::new();
    for kind in ALL_KINDS {
        let nmax = if kind.n_periods() == 0 { 1 } else { 4 };
        for n in 1..=nmax {
            for bars in [false, true] {
                if !bars && !kind.has_scalar() {
                    continue;
                }
                for first in 0..5usize {
                    jobs.push((kind, n, bars, first));
                }
            }
        }
    }
    par_run(jobs, ctx.threads, move |(kind, n, bars, first), rep| {
        let p = param_variants(*kind, *n);
        let alpha = alphabet(*bars);
        let cont = continuation(*bars, 3 * p.max_period() + 3, (*n + *first) as u64);
        // enumerate histories starting with alpha[first]
        fn rec(alpha: &[Op], depth: usize, hist: &mut Vec<Op>, f: &mut dyn FnMut(&[Op])) {
            f(hist);
            if hist.len() < depth {
                for a in alpha {
                    hist.push(a.clone());
                    rec(alpha, depth, hist, f);
                    hist.pop();
                }
            }
        }
        let mut hist = vec![alpha[*first].clone()];
        let mut k = 0u64;
        rec(&alpha, depth, &mut hist, &mut |h| {
            k += 1;
            let double = k % 3 == 0;
            check_history(rep, &p, h, &cont, double, "enum");
            rep.count("enum.histories");
            if h.iter().any(|o| !matches!(o, Op::Reset)) {
                rep.distinct_by_construction += 1;
            }
            if h.iter().any(|o| match o {
                Op::NextF(x) => !x.is_finite(),
                Op::NextBar(b) => !b.c.is_finite(),
                _ => false,
            }) {
                rep.count("enum.histories_with_nonfinite");
            }
            if h.iter().filter(|o| matches!(o, Op::Reset)).count() >= 1 {
                rep.count("enum.histories_with_inner_reset");
            }
            if rep.wants_sample() && h.len() == depth && k % 977 == 0 {
                rep.sample(json!({"phase": "enum", "indicator": p.label(), "history": ops_json_ops(h), "then": "reset + 3n+3 finite inputs vs fresh twin"}));
            }
        });
        // second enumeration over {next a, next b, reset, serde-swap, clone-swap}: a reset issued directly
        // after a restore or a clone, a restore directly after a reset, ...
        let alpha2 = alphabet_lifecycle(*bars);
        if *first < alpha2.len() {
            let mut hist = vec![alpha2[*first].clone()];
            rec(&alpha2, depth, &mut hist, &mut |h| {
                check_history(rep, &p, h, &cont, false, "enum_lifecycle");
                rep.count("enum.lifecycle_histories");
                rep.distinct_by_construction += 1;
            });
        }
        // the empty history: reset on a fresh instance changes nothing
        check_history(rep, &p, &[], &cont, false, "fresh");
        check_history(rep, &p, &[], &cont, true, "fresh");
    })
}

fn run_random(ctx: &Ctx) -> Report {
    let njobs = ctx.pick(13200, 1056000);
    let seed = ctx.seed;
    let maxops = ctx.pick(3000usize, 8000usize);
    let jobs: Vec<usize> = (0..njobs).collect();
    par_run(jobs, ctx.threads, move |idx, rep| {
        let mut rng = Rng::derive(seed, 0xC04, *idx as u64);
        let kind = ALL_KINDS[idx % ALL_KINDS.len()];
        let n = match rng.below(6) {
            0 => 1,
            1 => 2,
            2 => rng.range(3, 8),
            3 => rng.range(9, 40),
            _ => rng.range(1, 200),
        };
        let mut p = param_variants(kind, n);
        if kind.has_multiplier() {
            p.k = *rng.pick(&[0.0, 2.0, -1.5, 1e6, 0.5]);
        }
        let bars = !kind.has_scalar() || rng.chance(0.5);
        let len = rng.range(1, maxops);
        let mut hist = Vec::with_capacity(len);
        let p_reset = *rng.pick(&[0.0, 0.001, 0.01, 0.1]);
        let p_hostile = *rng.pick(&[0.0, 0.02, 0.3]);
        let mut since_reset = 0usize;
        for _ in 0..len {
            if rng.chance(0.004) {
                hist.push(if rng.chance(0.5) { Op::SerDeSwap } else { Op::CloneSwap });
            } else if rng.chance(p_reset) {
                hist.push(Op::Reset);
                rep.count(&format!("random.inner_reset_at_cursor_residue.{}", if n <= 8 { (since_reset % n).to_string() } else { "n>8".into() }));
                since_reset = 0;
            } else {
                since_reset += 1;
                if bars {
                    let b = if rng.chance(p_hostile) { hostile_bar(&mut rng) } else { Bar::flat(rng.uniform(1.0, 100.0), rng.f()) };
                    let b = if rng.chance(0.5) { Bar { h: b.h.max(b.c) + rng.f(), l: b.l.min(b.c) - rng.f(), ..b } } else { b };
                    hist.push(Op::NextBar(b));
                } else {
                    hist.push(Op::NextF(if rng.chance(p_hostile) { hostile_scalar(&mut rng) } else { rng.uniform(-50.0, 150.0) }));
                }
            }
        }
        rep.count(&format!("random.final_reset_at_cursor_residue.{}", if n <= 8 { (since_reset % n).to_string() } else { "n>8".into() }));
        let cont = continuation(bars, 3 * p.max_period() + 3, rng.u64());
        check_history(rep, &p, &hist, &cont, rng.chance(0.3), "random");
        rep.count("random.histories");
        let bytes: Vec<u8> = format!("{:?}{:?}", p, &hist[..hist.len().min(32)]).into_bytes();
        rep.distinct_case(fnv(&bytes));
        if rep.wants_sample() && idx % 211 == 0 {
            rep.sample(json!({"phase": "random", "indicator": p.label(), "history_ops": hist.len(), "history_head": ops_json_ops(&hist[..hist.len().min(6)]), "continuation_len": cont.len()}));
        }
    })
}

fn run_huge_periods(ctx: &Ctx) -> Report {
    let jobs = crate::common::huge_period_params();
    par_run(jobs, ctx.threads, move |p, rep| {
        if Inst::try_new(p).is_err() {
            rep.count("skipped.constructor_failed(see C11)");
            return;
        }
        for bars in [false, true] {
            if !bars && !p.kind.has_scalar() {
                continue;
            }
            let hist = continuation(bars, 12, 7);
            let cont = continuation(bars, 12, 2);
            check_history(rep, p, &hist, &cont, false, "huge_period");
            check_history(rep, p, &[], &cont, true, "huge_period");
            rep.count("huge_period_histories");
            rep.distinct_by_construction += 1;
        }
    })
}

/// One instance reset very many times (a session counter, an epoch mark or a pool that only shows after 2^8
/// or 2^16 resets): sessions of 0..=3 inputs, R resets in all, then the usual comparison with a fresh one.
/// The first session is the long one (it fills and wraps the window with large values), so anything that a
/// reset merely hides instead of clearing is there to come back.
fn run_many_resets(ctx: &Ctx) -> Report {
    let mut jobs = Vec::new();
    for kind in ALL_KINDS {
        for n in [2usize, 5] {
            for r in [255usize, 256, 257, 65_535, 65_536, 65_537] {
                for bars in [false, true] {
                    if (!bars && !kind.has_scalar()) || (bars && r > 1000 && kind.has_scalar()) {
                        continue;
                    }
                    jobs.push((kind, n, r, bars));
                }
            }
        }
    }
    let seed = ctx.seed;
    par_run(jobs, ctx.threads, move |(kind, n, r, bars), rep| {
        let p = param_variants(*kind, *n);
        let mut hist: Vec<Op> = continuation_finite(*bars, 3 * p.max_period() + 4, seed ^ 0x5E55)
            .into_iter()
            .map(|op| match op {
                Op::NextF(x) => Op::NextF(x * 1000.0 + 5000.0),
                Op::NextBar(b) => Op::NextBar(Bar { v: b.v, ..b.scale_prices(1000.0) }),
                o => o,
            })
            .collect();
        let filler = continuation_finite(*bars, 7, seed ^ (*r as u64));
        for k in 0..(*r - 1) {
            hist.push(Op::Reset);
            for j in 0..(k % 4) {
                hist.push(filler[(k + j) % filler.len()].clone());
            }
        }
        let cont = continuation_finite(*bars, 3 * p.max_period() + 3, seed ^ 0xC0 ^ *n as u64);
        check_history(rep, &p, &hist, &cont, false, "many_resets");
        rep.count("many_resets.histories");
        rep.distinct_by_construction += 1;
    })
}

pub fn run(ctx: &Ctx) -> Report {
    let mut rep = Report::new();
    if ctx.phase_enabled("resets") {
        rep.merge(run_many_resets(ctx));
    }
    if ctx.phase_enabled("huge") {
        rep.merge(run_huge_periods(ctx));
    }
    if ctx.phase_enabled("enum") {
        rep.merge(run_enum(ctx));
    }
    if ctx.phase_enabled("random") {
        rep.merge(run_random(ctx));
    }
    if ctx.only.is_none() {
        for key in ["many_resets.histories", "enum.histories_with_nonfinite", "enum.histories_with_inner_reset", "random.histories", "continuations_bit_identical"] {
            if rep.counters.get(key).copied().unwrap_or(0) == 0 {
                rep.inconclusive.push(format!("coverage floor missed: {} = 0", key));
            }
        }
        for r in 0..8 {
            let key = format!("random.final_reset_at_cursor_residue.{}", r);
            if rep.counters.get(&key).copied().unwrap_or(0) == 0 {
                rep.inconclusive.push(format!("coverage floor missed: {} = 0", key));
            }
        }
    }
    rep
}
