//! C06 — serialize/deserialize at any point of a stream preserves all future outputs.

use crate::common::{ops_json_ops, replay_twin, Ctx};
use crate::gen::{hostile_bar, hostile_scalar, BarGen, BarStyle};
use crate::inst::{rel_close, Bar, Inst, Kind, Op, Params, Res, ALL_KINDS};
use crate::report::{fnv, par_run, Report};
use crate::rng::Rng;
use serde_json::json;
use ta::DataItem;

pub const RULE: &str = "For all 22 indicators (serde feature on): a bincode checkpoint taken at EVERY prefix (fresh, warming up, exactly full, wrapped, just after reset) of histories of length 3n+5 for periods 1..=6 over scalar and bar streams (exhaustive over positions), and at random positions of random/hostile histories up to thousands of ops; the restored copy and the original are fed the same continuation (>= n+2 inputs). Oracle: every output component within 1e-12 relative (bit-identity reported), Display/period/multiplier equal, ser(de(ser(x))) == ser(x) byte-for-byte, three chained round-trips idempotent, every produced byte string deserializes; a JSON (serde_json) round-trip is additionally required to succeed and keep parameters (not compared numerically: serde_json's default float parser is not exact); DataItem round-trips to an equal value. Non-trivial: a checkpoint with at least one prior input and a continuation that wraps the window; distinct by construction (position enumeration) or by hash.";

const REL: f64 = 1e-12;

fn fail(rep: &mut Report, p: &Params, class: &str, tag: &str, detail: String, a: &[Op], b: &[Op], comp: usize) {
    let sig = format!("{}/c06.{}/{}", p.kind.name(), class, tag);
    if rep.is_new_sig(&sig) {
        let replay = replay_twin("C06", &sig, p, ops_json_ops(a), p, ops_json_ops(b), comp, "id", 1.0, 0.0, 0.0, REL, &detail);
        rep.violation(sig, detail, replay);
    } else {
        rep.violation_again(&sig);
    }
}

fn variant(kind: Kind, n: usize) -> Params {
    let mut p = Params::new1(kind, n);
    match kind {
        Kind::Macd | Kind::Ppo => p.p = [n, n + 2, (n + 1) / 2 + 1],
        Kind::Slow => p.p = [n, (n % 3) + 1, 0],
        Kind::Bb | Kind::Kc | Kind::Ce => p.k = [2.0, 0.5, -1.0, 3.0][n % 4],
        _ => {}
    }
    p
}

/// checkpoint `a` (which has already consumed `history`), restore, and compare on `cont`.
pub fn checkpoint_and_compare(rep: &mut Report, p: &Params, a: &mut Inst, history: &[Op], cont: &[Op], tag: &str, json_too: bool) -> bool {
    let bytes = match a.ser() {
        Ok(b) => b,
        Err(e) => {
            fail(rep, p, "serialize_failed", tag, format!("{}: serialize failed after {} ops: {}", p.label(), history.len(), e.0), history, &[], 0);
            return false;
        }
    };
    let mut b = match a.de(&bytes) {
        Ok(b) => b,
        Err(e) => {
            fail(rep, p, "deserialize_failed", tag, format!("{}: deserialize of own bytes failed after {} ops: {}", p.label(), history.len(), e.0), history, &[], 0);
            return false;
        }
    };
    rep.evaluations += 1;
    // re-serialization is byte-identical; three chained round-trips are idempotent
    let mut cur = b.ser().unwrap_or_default();
    if cur != bytes {
        fail(rep, p, "reserialize_differs", tag, format!("{}: ser(de(ser(x))) != ser(x) after {} ops ({} vs {} bytes)", p.label(), history.len(), cur.len(), bytes.len()), history, &[], 0);
        return false;
    }
    for _ in 0..2 {
        match b.de(&cur).and_then(|mut x| x.ser()) {
            Ok(nb) => {
                if nb != bytes {
                    fail(rep, p, "roundtrip_not_idempotent", tag, format!("{}: repeated round-trip changes the bytes", p.label()), history, &[], 0);
                    return false;
                }
                cur = nb;
            }
            Err(e) => {
                fail(rep, p, "deserialize_failed", tag, format!("{}: chained round-trip failed: {}", p.label(), e.0), history, &[], 0);
                return false;
            }
        }
    }
    // parameters and Display text
    let (da, db) = (a.display().ok(), b.display().ok());
    let (pa, pb) = (a.period().ok(), b.period().ok());
    let (ma, mb) = (a.multiplier().ok().map(|m| m.map(f64::to_bits)), b.multiplier().ok().map(|m| m.map(f64::to_bits)));
    if da != db || pa != pb || ma != mb {
        fail(rep, p, "params_differ", tag, format!("{}: restored copy reports {:?}/{:?}/{:?}, original {:?}/{:?}/{:?}", p.label(), db, pb, mb, da, pa, ma), history, &[], 0);
        return false;
    }
    // second format
    let mut j = if json_too {
        match a.ser_json().and_then(|s| a.de_json(&s)) {
            Ok(x) => Some(x),
            Err(e) => {
                // serde_json cannot represent non-finite floats (it writes null): not a defect of ta
                if e.0.contains("null") || e.0.contains("invalid type") {
                    rep.count("json.skipped_nonfinite_state");
                    None
                } else {
                    fail(rep, p, "json_roundtrip_failed", tag, format!("{}: json round-trip failed: {}", p.label(), e.0), history, &[], 0);
                    return false;
                }
            }
        }
    } else {
        None
    };
    let mut full: Vec<Op> = history.to_vec();
    let mut bit_identical = true;
    for (i, op) in cont.iter().enumerate() {
        full.push(op.clone());
        let ra = a.apply(op);
        let rb = b.apply(op);
        let rj = j.as_mut().map(|x| x.apply(op));
        rep.evaluations += 1;
        match (&ra, &rb) {
            (Res::Out(x), Res::Out(y)) => {
                if !x.bits_eq(y) {
                    bit_identical = false;
                }
                for c in 0..x.n {
                    if !rel_close(x.v[c], y.v[c], REL) {
                        let detail = format!(
                            "{}: checkpoint after {} ops, continuation step {} component {}: original {:e} vs restored {:e}",
                            p.label(), history.len(), i + 1, p.kind.out_names()[c], x.v[c], y.v[c]
                        );
                        let mut bprog: Vec<Op> = history.to_vec();
                        bprog.push(Op::SerDeSwap);
                        bprog.extend(cont[..=i].iter().cloned());
                        fail(rep, p, "diverges", tag, detail, &full, &bprog, c);
                        return false;
                    }
                    // serde_json (without its float_roundtrip feature) may parse a float one ulp
                    // off, so the JSON copy is only required to keep working, not to agree numerically
                    if let Some(Res::Panic(m)) = &rj {
                        fail(rep, p, "json_copy_panics", tag, format!("{}: json-restored copy panicked: {}", p.label(), m), &full, &full, c);
                        return false;
                    }
                }
            }
            (Res::Panic(m), _) | (_, Res::Panic(m)) => {
                fail(rep, p, "panic", tag, format!("{}: panic in continuation: {}", p.label(), m), &full, &[], 0);
                return false;
            }
            _ => {}
        }
    }
    // the original has moved on by now: restoring the checkpoint *into it* (serde's in-place path, which may
    // reuse what the target already holds) must give the checkpointed state again, byte for byte
    match a.restore_in_place(&bytes) {
        Ok(()) => match a.ser() {
            Ok(again) if again == bytes => rep.count("in_place_restores_into_an_advanced_instance"),
            Ok(_) => {
                fail(rep, p, "in_place_restore_differs", tag, format!("{}: the checkpoint taken after {} ops, restored in place into the instance that had since consumed {} more inputs, does not serialize back to the same bytes", p.label(), history.len(), cont.len()), &full, &[], 0);
                return false;
            }
            Err(e) => {
                fail(rep, p, "serialize_failed", tag, format!("{}: serialize after an in-place restore failed: {}", p.label(), e.0), &full, &[], 0);
                return false;
            }
        },
        Err(e) => {
            fail(rep, p, "in_place_restore_failed", tag, format!("{}: restoring its own checkpoint in place failed: {}", p.label(), e.0), &full, &[], 0);
            return false;
        }
    }
    rep.count(if bit_identical { "continuations_bit_identical" } else { "continuations_equal_within_1e-12_but_not_bitwise" });
    true
}

fn stream(bars: bool, len: usize, seed: u64) -> Vec<Op> {
    // a third of the streams are decimal quotes on a grid (0.37-cent ticks, two-decimal scalars) with exact
    // repeats of the previous value: prices that no narrower number format holds exactly, and ties across the
    // checkpoint that only survive if every bit of the remembered price does
    if bars {
        let mut g = if seed % 3 == 1 { BarGen::new(BarStyle::TickGrid, 1.48, seed) } else { BarGen::new(BarStyle::Mixed, 1.0, seed) };
        (0..len).map(|_| Op::NextBar(g.next())).collect()
    } else {
        let mut r = Rng::new(seed);
        let mut prev = 101.37;
        (0..len)
            .map(|_| {
                let x = if seed % 3 == 1 {
                    if r.chance(0.3) { prev } else { (r.uniform(90.0, 110.0) * 100.0).round() / 100.0 }
                } else if r.chance(0.2) {
                    r.below(4) as f64
                } else {
                    r.uniform(-20.0, 80.0)
                };
                prev = x;
                Op::NextF(x)
            })
            .collect()
    }
}

fn run_every_prefix(ctx: &Ctx) -> Report {
    let mut jobs = Vec::new();
    let reps = ctx.pick(24u64, 1500u64);
    for kind in ALL_KINDS {
        let nmax = if kind.n_periods() == 0 { 1 } else { ctx.pick(8, 12) };
        for n in 1..=nmax {
            for bars in [false, true] {
                if !bars && !kind.has_scalar() {
                    continue;
                }
                for r in 0..reps {
                    jobs.push((kind, n, bars, r));
                }
            }
        }
    }
    let seed = ctx.seed;
    par_run(jobs, ctx.threads, move |(kind, n, bars, r), rep| {
        let p = variant(*kind, *n);
        let np = p.max_period();
        let len = 3 * np + 5;
        let mut hist = stream(*bars, len, seed.wrapping_mul(131) ^ (*r * 7 + *n as u64));
        // every fourth repetition: non-finite and extreme inputs scattered through the history, so that a
        // checkpoint is taken immediately after each of them (a state holding NaN / inf must survive too)
        if *r % 4 == 3 {
            let mut hr = Rng::new(seed ^ (*r * 977 + *n as u64));
            for k in 0..hist.len() {
                if hr.chance(0.25) {
                    // NaN and the infinities are the states most likely to collide with a sentinel
                    let special = match hr.below(20) {
                        0..=9 => Some(f64::NAN),
                        10..=12 => Some(f64::INFINITY),
                        13..=14 => Some(f64::NEG_INFINITY),
                        _ => None,
                    };
                    hist[k] = match (special, *bars) {
                        (Some(v), false) => Op::NextF(v),
                        (Some(v), true) => Op::NextBar(Bar { o: v, h: v, l: v, c: v, v }),
                        (None, false) => Op::NextF(hostile_scalar(&mut hr)),
                        (None, true) => Op::NextBar(hostile_bar(&mut hr)),
                    };
                }
            }
            rep.count("prefix.histories_with_nonfinite_inputs");
        }
        // a reset somewhere inside in some repetitions, so "just reset" is a checkpoint position too
        if *r % 3 == 1 {
            hist[np + 1] = Op::Reset;
        }
        if *r % 3 == 2 {
            hist[len - 1] = Op::Reset;
        }
        let cont = stream(*bars, 2 * np + 4, seed ^ 0xC0117 ^ *r);
        for cut in 0..=len {
            let mut a = Inst::new(&p);
            for op in &hist[..cut] {
                a.apply(op);
            }
            // at every other position the continuation opens with an exact repeat of the last input before the
            // checkpoint (a tie across it: decided correctly only if the remembered value survived bit for bit)
            let tied;
            let cont_here: &[Op] = if cut % 2 == 1 && !matches!(hist[cut - 1], Op::Reset) {
                let mut c2 = cont.clone();
                c2[0] = hist[cut - 1].clone();
                tied = c2;
                rep.count("prefix.continuations_opening_with_a_tie");
                &tied
            } else {
                &cont
            };
            checkpoint_and_compare(rep, &p, &mut a, &hist[..cut], cont_here, "every_prefix", true);
            rep.count("prefix.checkpoints");
            let since_reset = hist[..cut].iter().rev().take_while(|o| !matches!(o, Op::Reset)).count();
            rep.count(if cut == 0 {
                "position.fresh"
            } else if since_reset == 0 {
                "position.just_reset"
            } else if since_reset < np {
                "position.warming_up"
            } else if since_reset == np {
                "position.exactly_full"
            } else {
                "position.wrapped"
            });
            if cut > 0 {
                rep.distinct_by_construction += 1;
            }
        }
        if rep.wants_sample() && *r == 1 && *n == 3 {
            rep.sample(json!({"phase": "every_prefix", "indicator": p.label(), "history": ops_json_ops(&hist[..6.min(len)]), "history_len": len, "checkpoints": len + 1, "continuation_len": cont.len()}));
        }
    })
}

fn run_random(ctx: &Ctx) -> Report {
    let njobs = ctx.pick(13200, 660000);
    let seed = ctx.seed;
    let maxops = ctx.pick(3000usize, 20000usize);
    let jobs: Vec<usize> = (0..njobs).collect();
    par_run(jobs, ctx.threads, move |idx, rep| {
        let mut rng = Rng::derive(seed, 0xC06, *idx as u64);
        let kind = ALL_KINDS[idx % ALL_KINDS.len()];
        let n = match rng.below(5) {
            0 => 1,
            1 => rng.range(2, 8),
            2 => rng.range(9, 64),
            _ => rng.range(1, 300),
        };
        let mut p = variant(kind, n);
        if kind.has_multiplier() {
            p.k = *rng.pick(&[0.0, 2.0, -1.5, 1e6, 0.5, f64::NAN]);
        }
        let bars = !kind.has_scalar() || rng.chance(0.5);
        let len = rng.range(0, maxops);
        let p_hostile = *rng.pick(&[0.0, 0.0, 0.05, 0.3]);
        let mut hist = Vec::with_capacity(len);
        for _ in 0..len {
            if rng.chance(0.002) {
                hist.push(Op::Reset);
            } else if bars {
                let b = if rng.chance(p_hostile) { hostile_bar(&mut rng) } else { Bar::flat(rng.uniform(1.0, 100.0), rng.f()) };
                hist.push(Op::NextBar(Bar { h: b.h + rng.f(), l: b.l - rng.f(), ..b }));
            } else {
                hist.push(Op::NextF(if rng.chance(p_hostile) { hostile_scalar(&mut rng) } else { rng.uniform(-50.0, 150.0) }));
            }
        }
        let mut a = Inst::new(&p);
        for op in &hist {
            a.apply(op);
        }
        let cont = stream(bars, 2 * p.max_period() + 4, rng.u64());
        checkpoint_and_compare(rep, &p, &mut a, &hist, &cont, "random", p_hostile == 0.0 && !p.k.is_nan());
        rep.count("random.checkpoints");
        if p_hostile > 0.0 {
            rep.count("random.histories_with_nonfinite");
        }
        rep.distinct_case(fnv(format!("{:?}{:?}", p, &hist[..hist.len().min(24)]).as_bytes()));
    })
}

fn run_dataitem(ctx: &Ctx) -> Report {
    let mut rep = Report::new();
    let mut rng = Rng::derive(ctx.seed, 0xDA7A, 0);
    let n = ctx.pick(20_000, 200_000);
    for i in 0..n {
        let l = rng.log_uniform(1e-6, 1e6);
        let h = l * (1.0 + rng.f());
        let o = rng.uniform(l, h);
        let c = if i % 5 == 0 { h } else { rng.uniform(l, h) };
        let v = if i % 7 == 0 { 0.0 } else { rng.log_uniform(1e-3, 1e9) };
        let b = Bar { o, h, l, c, v };
        let Some(item) = b.to_item() else { continue };
        rep.evaluations += 1;
        let bytes = bincode::serialize(&item).unwrap_or_default();
        let back: Result<DataItem, _> = bincode::deserialize(&bytes);
        let js = serde_json::to_string(&item).unwrap_or_default();
        let backj: Result<DataItem, _> = serde_json::from_str(&js);
        // JSON: must parse back (numeric equality is not guaranteed by serde_json's default float parser)
        let ok = matches!(&back, Ok(x) if *x == item) && backj.is_ok() && bytes.len() == 40;
        if !ok {
            let p = Params::new1(Kind::Sma, 1);
            let sig = "DATAITEM/c06.roundtrip/mismatch".to_string();
            if rep.is_new_sig(&sig) {
                rep.violation(sig.clone(), format!("DataItem {:?} does not round-trip: bincode {:?} json {:?} ({} bytes)", item, back, backj, bytes.len()), crate::common::replay_rerun("C06", &sig, "DataItem round-trip", json!({"bar": b.to_json(), "params": p.to_json()})));
            } else {
                rep.violation_again(&sig);
            }
        }
    }
    rep.add("dataitem.roundtrips", n as u64);
    rep
}

fn run_huge_periods(ctx: &Ctx) -> Report {
    let mut jobs = crate::common::huge_period_params();
    // windowed indicators with windows of 5 000 and 70 001 values (longer than any element count a reader
    // might pre-allocate or cap at)
    for kind in ALL_KINDS {
        if kind.windowed() {
            for n in [5_000usize, 70_001] {
                // (the longer one only where a step costs O(1))
                if n > 5_000 && !matches!(kind, Kind::Sma | Kind::Sd | Kind::Bb | Kind::Roc | Kind::Min | Kind::Max) {
                    continue;
                }
                let mut p = variant(kind, 3);
                p.p[0] = n;
                jobs.push(p);
            }
        }
    }
    let seed = ctx.seed;
    par_run(jobs, ctx.threads, move |p, rep| {
        if Inst::try_new(p).is_err() {
            rep.count("skipped.constructor_failed(see C11)");
            return;
        }
        for bars in [false, true] {
            if !bars && !p.kind.has_scalar() {
                continue;
            }
            let big_window = p.kind.windowed() && p.p[0] >= 5_000 && p.p[0] < (1 << 30);
            let hist = stream(bars, if big_window { p.p[0] + 9 } else { 9 }, seed ^ 5);
            let cont = stream(bars, 9, seed ^ 6);
            let cuts: Vec<usize> = if big_window { vec![1, hist.len()] } else { vec![0, 1, 9] };
            for cut in cuts {
                let mut a = Inst::new(p);
                for op in &hist[..cut] {
                    a.apply(op);
                }
                checkpoint_and_compare(rep, p, &mut a, &hist[..cut], &cont, "huge_period", false);
                rep.count("huge_period_checkpoints");
                rep.distinct_by_construction += 1;
            }
        }
    })
}

pub fn run(ctx: &Ctx) -> Report {
    let mut rep = Report::new();
    if ctx.phase_enabled("huge") {
        rep.merge(run_huge_periods(ctx));
    }
    if ctx.phase_enabled("prefix") {
        rep.merge(run_every_prefix(ctx));
    }
    if ctx.phase_enabled("random") {
        rep.merge(run_random(ctx));
    }
    if ctx.phase_enabled("dataitem") {
        rep.merge(run_dataitem(ctx));
    }
    if ctx.only.is_none() {
        for key in ["position.fresh", "position.just_reset", "position.warming_up", "position.exactly_full", "position.wrapped", "random.checkpoints", "dataitem.roundtrips", "continuations_bit_identical"] {
            if rep.counters.get(key).copied().unwrap_or(0) == 0 {
                rep.inconclusive.push(format!("coverage floor missed: {} = 0", key));
            }
        }
    }
    rep
}
