//! C14 — outputs are covariant with the price unit: rescaling / shifting act as in the math.

use crate::common::{ops_json, replay_twin, Ctx};
use crate::dd::{dd, Dd};
use crate::gen::{BandGen, BarGen, BAND_REGIMES, BAR_STYLES};
use crate::inst::{Bar, In, Inst, Kind, Out, Params, ALL_KINDS};
use crate::refmodel::{tau, RefModel};
use crate::report::{hash_f64s, par_run, Report};
use crate::rng::Rng;
use serde_json::json;
use std::collections::VecDeque;

pub const RULE: &str = "(plus windows of 10^5 and 2^17+1 slots for SMA/WMA/MIN/MAX under a shift and a power-of-two factor, fed past the window length; plus a calm phase: a level with relative jitter 3e-2..1e-6 and nothing else, shifts up to 2^33 x the level, where dispersion-valued outputs are compared on their own scale: 1e-9 of the output + 1e-12 of the magnitude under scaling, tau*(M+|d|) under a shift) Twin instances fed x and c*x (all price fields scaled, volume untouched), x and x+d, step by step, for all indicators except RSI, on positive scalar price streams and valid OHLCV bars with base magnitudes 1e-2..1e5, parameters sampled (periods 1..=200): (a) c = 2^k, k in -40..=40: every output of every step judged at 1e-12 (price-valued: |out(cx)-c*out(x)| <= 1e-12*c*M; dimensionless: relative to the output's natural scale; SD and Bollinger half-width on squares), bit-identity reported; (b) arbitrary c log-uniform in [1e-6,1e6] at 1e-9, only on well-conditioned steps decided from the double-double reference of the unscaled twin (t <= 2000, condition number <= 100, no comparison the formula branches on within 1e-9 of a tie unless it is an exact tie of identical inputs); (c) shifts d keeping prices positive: SMA/EMA/WMA/MIN/MAX/BB average/KC/CE levels move by d, MAD/TR/ATR/MACD unchanged, within tau(t)*(M+|d|); SD and BB half-width unchanged on squares; FAST unchanged within tau(t)*c*100, c=(M+|d|)/(high_n-low_n) <= 1e6; (d) MAX(x) == -MIN(-x) exactly. Non-trivial: stream longer than the period; distinct by hash of (relation, indicator, params, factor, stream head).";

#[derive(Clone, Copy, PartialEq, Debug)]
enum Class {
    Level,
    Disp,
    DispSq,
    Dimless,
}

/// derived quantities judged for one output
fn derive(kind: Kind, o: &Out) -> Vec<(&'static str, Dd, f64, Class)> {
    use Kind::*;
    let v = |i: usize| dd(o.v[i]);
    let raw = |i: usize| o.v[i];
    match kind {
        Sma | Ema | Wma | Min | Max => vec![("value", v(0), raw(0), Class::Level)],
        Sd => vec![("sd", v(0), raw(0), Class::DispSq)],
        Mad | Tr | Atr => vec![("value", v(0), raw(0), Class::Disp)],
        Macd => vec![("macd", v(0), raw(0), Class::Disp), ("signal", v(1), raw(1), Class::Disp), ("histogram", v(2), raw(2), Class::Disp)],
        Bb => {
            let hw = (v(1) - v(2)) / dd(2.0);
            vec![("average", v(0), raw(0), Class::Level), ("halfwidth", hw, raw(1) - raw(2), Class::DispSq)]
        }
        Kc => vec![("average", v(0), raw(0), Class::Level), ("upper", v(1), raw(1), Class::Level), ("lower", v(2), raw(2), Class::Level)],
        Ce => vec![("long", v(0), raw(0), Class::Level), ("short", v(1), raw(1), Class::Level)],
        Fast | Slow | Roc | Er | Cci | Mfi | Obv => vec![("value", v(0), raw(0), Class::Dimless)],
        Ppo => vec![("ppo", v(0), raw(0), Class::Dimless), ("signal", v(1), raw(1), Class::Dimless), ("histogram", v(2), raw(2), Class::Dimless)],
        Rsi => vec![],
    }
}

fn scale_in(x: &In, c: f64) -> In {
    match x {
        In::S(v) => In::S(v * c),
        In::B(b) => In::B(b.scale_prices(c)),
    }
}
fn shift_in(x: &In, d: f64) -> In {
    match x {
        In::S(v) => In::S(v + d),
        In::B(b) => In::B(b.shift_prices(d)),
    }
}

fn variant(kind: Kind, rng: &mut Rng) -> Params {
    // one draw in twelve is the documented default configuration (which the wrapper builds through Default::default())
    if rng.below(12) == 0 {
        return kind.default_params();
    }
    let per = |rng: &mut Rng| match rng.below(8) {
        0 => 1,
        1 => 2,
        2 => 3,
        _ => (rng.log_uniform(1.0, 200.99) as usize).clamp(1, 200),
    };
    let mut p = Params::new1(kind, per(rng));
    match kind {
        Kind::Macd | Kind::Ppo => p.p = [per(rng), per(rng), per(rng).min(50)],
        Kind::Slow => p.p[1] = per(rng).min(50),
        Kind::Bb | Kind::Kc | Kind::Ce => p.k = *rng.pick(&[0.0, 0.5, 2.0, 3.0, 25.0]),
        _ => {}
    }
    p
}

#[allow(clippy::too_many_arguments)]
fn report(rep: &mut Report, p: &Params, relation: &str, name: &str, t: usize, detail: String, a: &[In], b: &[In], comp: usize, factor: f64, shift: f64, tol: f64) {
    let sig = format!("{}/c14.{}.{}/mismatch", p.kind.name(), relation, name);
    if rep.is_new_sig(&sig) {
        let replay = replay_twin("C14", &sig, p, ops_json(b), p, ops_json(a), comp, "id", factor, shift, tol, 0.0, &detail);
        rep.violation(sig, format!("t={} {}", t, detail), replay);
    } else {
        rep.violation_again(&sig);
    }
}

/// one stream, one indicator: twins for 2^k scaling, arbitrary scaling, shift
fn run_twins(rep: &mut Report, p: &Params, xs: &[In], pow2: f64, arb: f64, d: f64, calm: Option<f64>) {
    let kind = p.kind;
    let n = p.n();
    let mut a = Inst::new(p);
    let mut b2 = Inst::new(p);
    let mut ba = Inst::new(p);
    let mut bs = Inst::new(p);
    let mut rm = RefModel::new(p);
    let ys2: Vec<In> = xs.iter().map(|x| scale_in(x, pow2)).collect();
    let ysa: Vec<In> = xs.iter().map(|x| scale_in(x, arb)).collect();
    let yss: Vec<In> = xs.iter().map(|x| shift_in(x, d)).collect();
    // every third stream: all four twins are recycled first - each consumes its own image (scaled /
    // shifted) of an unrelated prefix and is reset(); the relations must hold for the whole program
    if xs.len() % 3 == 0 {
        let k = xs.len().min(2 * p.max_period().min(40) + 3);
        for x in xs[..k].iter().rev() {
            let y = match x {
                In::S(v) => In::S(v * 1.5 + 0.25),
                In::B(b) => In::B(Bar { v: b.v + 1.0, ..b.scale_prices(1.5) }),
            };
            let _ = a.feed(&y);
            let _ = b2.feed(&scale_in(&y, pow2));
            let _ = ba.feed(&scale_in(&y, arb));
            let _ = bs.feed(&shift_in(&y, d));
        }
        let _ = a.reset();
        let _ = b2.reset();
        let _ = ba.reset();
        let _ = bs.reset();
        rep.count("twin_streams_on_recycled_instances");
    }
    let (mut alive2, mut alivea, mut alives) = (true, true, true);
    let shift_applies = matches!(kind, Kind::Sma | Kind::Ema | Kind::Wma | Kind::Min | Kind::Max | Kind::Bb | Kind::Kc | Kind::Ce | Kind::Mad | Kind::Tr | Kind::Atr | Kind::Macd | Kind::Sd | Kind::Fast);
    let kk = p.k.abs().max(1.0);
    let mut bit_identical_pow2 = true;
    // near-tie tracking on the raw inputs for branchy formulas under arbitrary scaling
    let mut obv_poisoned = false;
    let mut prev_close: Option<f64> = None;
    let mut mfi_gaps: VecDeque<f64> = VecDeque::new();
    let mut prev_bar: Option<Bar> = None;
    for (i, x) in xs.iter().enumerate() {
        let t = i + 1;
        let r = rm.push(x);
        let m = r.m;
        let oa = match a.feed(x) {
            Ok(o) => o,
            Err(_) => return, // totality is C12's
        };
        let qa = derive(kind, &oa);
        // track near ties
        if let In::B(bar) = x {
            if let Some(pc) = prev_close {
                let g = (bar.c - pc).abs() / bar.c.abs().max(pc.abs());
                if g > 0.0 && g < 1e-9 {
                    obv_poisoned = true;
                }
            }
            prev_close = Some(bar.c);
            if let Some(pb) = prev_bar {
                let same = pb.h == bar.h && pb.l == bar.l && pb.c == bar.c;
                let tp = (dd(bar.h) + dd(bar.l) + dd(bar.c)) / dd(3.0);
                let ptp = (dd(pb.h) + dd(pb.l) + dd(pb.c)) / dd(3.0);
                let g = if same { f64::INFINITY } else { (tp - ptp).abs().to_f64() / tp.abs().to_f64().max(ptp.abs().to_f64()) };
                mfi_gaps.push_back(g);
                if mfi_gaps.len() > n {
                    mfi_gaps.pop_front();
                }
            }
            prev_bar = Some(*bar);
        }
        // ---- (a) power of two
        if alive2 {
            if let Ok(ob) = b2.feed(&ys2[i]) {
                let qb = derive(kind, &ob);
                for (j, (name, va, _ra, class)) in qa.iter().enumerate() {
                    let (_, vb, rb, _) = qb[j];
                    rep.evaluations += 1;
                    let (err, tol) = match class {
                        Class::Level | Class::Disp => ((vb - dd(pow2) * *va).abs().to_f64(), 1e-12 * pow2 * m),
                        Class::DispSq => ((vb.sqr() - dd(pow2).sqr() * va.sqr()).abs().to_f64(), 1e-12 * pow2 * pow2 * m * m),
                        Class::Dimless => ((vb - *va).abs().to_f64(), 1e-12 * r.scale),
                    };
                    let exact = match class {
                        Class::Dimless => vb.to_f64() == va.to_f64(),
                        _ => vb.to_f64() == va.to_f64() * pow2,
                    };
                    if !exact && !(rb.is_nan() && va.hi.is_nan()) {
                        bit_identical_pow2 = false;
                    }
                    let key = format!("c14.pow2.{}.{}", kind.name(), name);
                    let bad = rb.is_nan() != va.hi.is_nan() || (!rb.is_nan() && !(err <= tol));
                    rep.ratio(&key, if tol > 0.0 { err / tol } else if err == 0.0 { 0.0 } else { f64::INFINITY });
                    if bad {
                        alive2 = false;
                        report(rep, p, "scale_pow2", name, t, format!("{} {}: out(c*x)={:e} vs c*out(x)={:e} (c=2^{}), |err| {:e} > {:e}", p.label(), name, vb.to_f64(), va.to_f64() * if *class == Class::Dimless { 1.0 } else { pow2 }, pow2.log2(), err, tol), &xs[..=i], &ys2[..=i], j.min(oa.n - 1), if *class == Class::Dimless { 1.0 } else { pow2 }, 0.0, tol);
                        break;
                    }
                }
            }
        }
        // ---- (b) arbitrary factor, well-conditioned steps only
        if alivea {
            if let Ok(ob) = ba.feed(&ysa[i]) {
                if t <= 2000 {
                    let qb = derive(kind, &ob);
                    for (j, (name, va, _ra, class)) in qa.iter().enumerate() {
                        let (_, vb, rb, _) = qb[j];
                        // conditioning
                        let ok_cond = match class {
                            Class::Dimless => {
                                let c = r.c[j.min(2)];
                                let branch_ok = match kind {
                                    Kind::Obv => !obv_poisoned,
                                    Kind::Mfi => !r.near_tie && mfi_gaps.iter().all(|g| *g >= 1e-9),
                                    // a window of bit-identical bars stays one under any scaling: CCI is 0 in both units
                                    Kind::Cci => !r.degenerate || r.identical_window,
                                    _ => true,
                                };
                                // an exactly degenerate window (identical inputs) stays degenerate under
                                // scaling; indicators with memory (SLOW, PPO) must be well-conditioned outright
                                (c <= 100.0 || r.degenerate && matches!(kind, Kind::Fast | Kind::Er | Kind::Mfi | Kind::Roc)) && branch_ok && !(kind == Kind::Mfi && r.degenerate && !mfi_gaps.iter().all(|g| g.is_infinite()))
                            }
                            _ => true,
                        };
                        if !ok_cond {
                            rep.count("arbitrary_factor.skipped_ill_conditioned_or_near_tie");
                            continue;
                        }
                        rep.evaluations += 1;
                        rep.count("arbitrary_factor.judged");
                        let (err, tol) = match class {
                            // calm streams (no value since reset far from the others, so no cancellation residue
                            // in any accumulator): "1e-9 relative" is taken relative to the output itself, plus
                            // the 1e-12 of the magnitude that even the power-of-two case is allowed
                            // (a variance's rounding error there is of the order eps * magnitude * spread, S being a
                            // bound on the spread of the stream; its square root is compared in the variance domain)
                            Class::Disp if calm.is_some() => ((vb - dd(arb) * *va).abs().to_f64(), 1e-9 * arb * va.abs().to_f64() + 1e-12 * arb * m),
                            Class::DispSq if calm.is_some() => ((vb.sqr() - dd(arb).sqr() * va.sqr()).abs().to_f64(), arb * arb * (1e-9 * va.sqr().to_f64() + 1e-12 * m * calm.unwrap() * (p.k * p.k).max(1.0))),
                            Class::Level | Class::Disp => ((vb - dd(arb) * *va).abs().to_f64(), 1e-9 * arb * m),
                            Class::DispSq => ((vb.sqr() - dd(arb).sqr() * va.sqr()).abs().to_f64(), 1e-9 * arb * arb * m * m),
                            Class::Dimless => ((vb - *va).abs().to_f64(), 1e-9 * r.scale),
                        };
                        let key = format!("c14.arbitrary.{}.{}", kind.name(), name);
                        rep.ratio(&key, if tol > 0.0 { err / tol } else if err == 0.0 { 0.0 } else { f64::INFINITY });
                        let bad = rb.is_nan() != va.hi.is_nan() || (!rb.is_nan() && !(err <= tol));
                        if bad {
                            alivea = false;
                            report(rep, p, "scale_arbitrary", name, t, format!("{} {}: out(c*x)={:e} vs {:e} (c={:e}), |err| {:e} > {:e}; condition {:e}", p.label(), name, vb.to_f64(), va.to_f64() * if *class == Class::Dimless { 1.0 } else { arb }, arb, err, tol, r.c[j.min(2)]), &xs[..=i], &ysa[..=i], j.min(oa.n - 1), if *class == Class::Dimless { 1.0 } else { arb }, 0.0, tol);
                            break;
                        }
                    }
                }
            }
        }
        // ---- (c) shift
        if alives && shift_applies {
            if let Ok(ob) = bs.feed(&yss[i]) {
                let qb = derive(kind, &ob);
                let md = m + d.abs();
                let tq = tau(t);
                for (j, (name, va, _ra, class)) in qa.iter().enumerate() {
                    let (_, vb, rb, _) = qb[j];
                    let (err, tol) = match (kind, class) {
                        (Kind::Fast, _) => {
                            if r.degenerate {
                                ((vb - *va).abs().to_f64(), 0.0)
                            } else {
                                let hi = crate::refmodel::w_max(rm.wh.iter());
                                let lo = crate::refmodel::w_min(rm.wl.iter());
                                let c = md / (hi - lo);
                                // inputs x+d carry a rounding of eps*(M+|d|): %K moves by 100*eps*c, so the
                                // comparison stays meaningful (tolerance <= 1 in 100) up to c = 1e10
                                if !(c <= 1e10) {
                                    rep.count("shift.fast_skipped_ill_conditioned");
                                    continue;
                                }
                                ((vb - *va).abs().to_f64(), tq * c * 100.0)
                            }
                        }
                        // calm streams: an unchanged dispersion is unchanged up to the rounding of the shifted
                            // inputs, tau*(M+|d|) on the output itself (not on its square)
                        (_, Class::Disp) if calm.is_some() => ((vb - *va).abs().to_f64(), tq * md * kk),
                        (_, Class::DispSq) if calm.is_some() => ((vb.sqr() - va.sqr()).abs().to_f64(), tq * md * calm.unwrap() * (p.k * p.k).max(1.0)),
                        (_, Class::Level) => ((vb - (*va + dd(d))).abs().to_f64(), tq * md * kk),
                        (_, Class::Disp) => ((vb - *va).abs().to_f64(), tq * md),
                        (_, Class::DispSq) => ((vb.sqr() - va.sqr()).abs().to_f64(), tq * md * md * (p.k * p.k).max(1.0)),
                        (_, Class::Dimless) => continue,
                    };
                    rep.evaluations += 1;
                    let key = format!("c14.shift.{}.{}", kind.name(), name);
                    rep.ratio(&key, if tol > 0.0 { err / tol } else if err == 0.0 { 0.0 } else { f64::INFINITY });
                    let bad = rb.is_nan() != va.hi.is_nan() || (!rb.is_nan() && !(err <= tol));
                    if bad {
                        alives = false;
                        report(rep, p, "shift", name, t, format!("{} {}: out(x+d)={:e} vs out(x)={:e} (d={:e}), |err| {:e} > {:e}", p.label(), name, vb.to_f64(), va.to_f64(), d, err, tol), &xs[..=i], &yss[..=i], j.min(oa.n - 1), 1.0, if *class == Class::Level { d } else { 0.0 }, tol);
                        break;
                    }
                }
            }
        }
    }
    if alive2 {
        rep.count(if bit_identical_pow2 { "pow2.streams_bit_identical" } else { "pow2.streams_within_1e-12_not_bitwise" });
    }
}

fn run_maxmin(rep: &mut Report, n: usize, xs: &[f64]) {
    let mut mx = Inst::new(&Params::new1(Kind::Max, n));
    let mut mn = Inst::new(&Params::new1(Kind::Min, n));
    for (i, x) in xs.iter().enumerate() {
        if let (Ok(a), Ok(b)) = (mx.next_f64(*x), mn.next_f64(-*x)) {
            rep.evaluations += 1;
            if a.v[0] != -b.v[0] {
                let p = Params::new1(Kind::Max, n);
                let sig = "MAX/c14.max_is_neg_min_of_neg/mismatch".to_string();
                if rep.is_new_sig(&sig) {
                    let ins: Vec<In> = xs[..=i].iter().map(|v| In::S(*v)).collect();
                    let neg: Vec<In> = xs[..=i].iter().map(|v| In::S(-*v)).collect();
                    let pm = Params::new1(Kind::Min, n);
                    let replay = replay_twin("C14", &sig, &p, ops_json(&ins), &pm, ops_json(&neg), 0, "id", -1.0, 0.0, 0.0, 0.0, "MAX(x) vs -MIN(-x)");
                    rep.violation(sig, format!("MAX({})(x)={:e} but -MIN({})(-x)={:e} at t={}", n, a.v[0], n, -b.v[0], i + 1), replay);
                } else {
                    rep.violation_again(&sig);
                }
                return;
            }
        }
    }
    rep.count("max_min_mirror_streams");
}

/// Prices of order 1e280 (times 2^k, |k| <= 40, stays below f64::MAX): the linear, price-valued indicators
/// must still scale exactly - an intermediate product such as period*price must not overflow. Includes
/// periods up to usize::MAX for the allocation-free ones.
fn run_huge_unit(ctx: &Ctx) -> Report {
    let mut jobs: Vec<Params> = Vec::new();
    for kind in [Kind::Ema, Kind::Atr, Kind::Macd, Kind::Kc, Kind::Ce, Kind::Tr, Kind::Min, Kind::Max, Kind::Sma, Kind::Wma, Kind::Mad] {
        for n in [1usize, 3, 14, 200] {
            let mut p = Params::new1(kind, n);
            match kind {
                Kind::Macd => p.p = [n, n + 5, 3],
                Kind::Kc | Kind::Ce => p.k = 2.0,
                _ => {}
            }
            jobs.push(p);
        }
    }
    for p in crate::common::huge_period_params() {
        if matches!(p.kind, Kind::Ema | Kind::Atr | Kind::Macd | Kind::Kc) {
            jobs.push(p);
        }
    }
    let seed = ctx.seed;
    par_run(jobs, ctx.threads, move |p, rep| {
        if Inst::try_new(p).is_err() {
            return;
        }
        let mut rng = Rng::derive(seed, 0xC14E, p.p[0] as u64 ^ (p.kind as u64) << 40);
        for rep_i in 0..4 {
            let k = rng.range(0, 80) as i32 - 40;
            let pow2 = (2.0f64).powi(k);
            let unit = if rep_i % 2 == 0 { 1e280 } else { 1e-280 };
            let bars = !p.kind.has_scalar() || rep_i >= 2;
            let xs: Vec<In> = if bars {
                BarGen::new(BAR_STYLES[rep_i % BAR_STYLES.len()], 1.0, rng.u64()).take(300).iter().map(|b| In::B(b.scale_prices(unit))).collect()
            } else {
                BandGen::new(BAND_REGIMES[rep_i], 1.0, rng.u64()).take(300).iter().map(|x| In::S(x * unit)).collect()
            };
            let mut a = Inst::new(p);
            let mut b = Inst::new(p);
            let mut m: f64 = 0.0;
            for (i, x) in xs.iter().enumerate() {
                let y = scale_in(x, pow2);
                m = m.max(match x {
                    In::S(v) => v.abs(),
                    In::B(bb) => bb.h.abs(),
                });
                let (oa, ob) = match (a.feed(x), b.feed(&y)) {
                    (Ok(u), Ok(v)) => (u, v),
                    _ => return,
                };
                for c in 0..oa.n {
                    rep.evaluations += 1;
                    let want = oa.v[c] * pow2;
                    let ok = if oa.v[c].is_finite() && want.is_finite() { (ob.v[c] - want).abs() <= 1e-12 * pow2 * m } else { true };
                    if !ok {
                        report(rep, p, "scale_pow2_huge_unit", p.kind.out_names()[c], i + 1, format!("{} {}: out(c*x)={:e} vs c*out(x)={:e} (c=2^{}, prices ~{:e})", p.label(), p.kind.out_names()[c], ob.v[c], want, k, unit), &xs[..=i], &xs[..=i].iter().map(|x| scale_in(x, pow2)).collect::<Vec<_>>(), c, pow2, 0.0, 1e-12 * pow2 * m);
                        return;
                    }
                }
            }
            rep.count("huge_unit.twin_streams");
            rep.distinct_by_construction += 1;
        }
    })
}

/// Arbitrary (non power-of-two) factors over long streams for the price-valued indicators: their
/// legitimate re-rounding stays ~eps*sqrt(t)*M, far below 1e-9*M even at t = 3*10^5, whereas an
/// accumulator that drifts does not commute with the rescaling.
fn run_long_arbitrary(ctx: &Ctx) -> Report {
    let steps = ctx.pick(300_000usize, 2_200_000usize);
    let seed = ctx.seed;
    let mut jobs = Vec::new();
    for kind in [Kind::Sma, Kind::Wma, Kind::Ema, Kind::Mad, Kind::Sd, Kind::Bb, Kind::Atr, Kind::Macd, Kind::Min, Kind::Max] {
        for n in [2usize, 3, 5, 9] {
            jobs.push((kind, n));
        }
    }
    par_run(jobs, ctx.threads, move |(kind, n), rep| {
        let mut p = Params::new1(*kind, *n);
        match kind {
            Kind::Macd => p.p = [*n, *n + 4, 3],
            Kind::Bb => p.k = 2.0,
            _ => {}
        }
        let mut rng = Rng::derive(seed, 0xC14F, *kind as u64 * 100 + *n as u64);
        let arb = *rng.pick(&[3.0, 0.1, 0.37, 7.25]);
        // prices quoted in cents inside [10, 1000]
        let mut g = BandGen::new(crate::gen::Regime::Walk, 10.0, rng.u64());
        let (mut a, mut b) = (Inst::new(&p), Inst::new(&p));
        let mut m: f64 = 0.0;
        for t in 1..=steps {
            let x = (g.next() * 100.0).round() / 100.0;
            m = m.max(x);
            let (oa, ob) = match (a.next_f64(x), b.next_f64(x * arb)) {
                (Ok(u), Ok(v)) => (u, v),
                _ => return,
            };
            if t % 101 != 0 && t > 2000 {
                continue;
            }
            let (qa, qb) = (derive(*kind, &oa), derive(*kind, &ob));
            for (j, (name, va, _ra, class)) in qa.iter().enumerate() {
                let (_, vb, _rb, _) = qb[j];
                rep.evaluations += 1;
                let (err, tol) = match class {
                    Class::DispSq => ((vb.sqr() - dd(arb).sqr() * va.sqr()).abs().to_f64(), 1e-9 * arb * arb * m * m),
                    _ => ((vb - dd(arb) * *va).abs().to_f64(), 1e-9 * arb * m),
                };
                rep.ratio(&format!("c14.long_arbitrary.{}.{}", kind.name(), name), err / tol);
                if !(err <= tol) {
                    let sig = format!("{}/c14.scale_arbitrary_long.{}/mismatch", kind.name(), name);
                    if rep.is_new_sig(&sig) {
                        let detail = format!("{} {}: after {} inputs out(c*x)={:e} vs c*out(x)={:e} (c={}), |err| {:e} > {:e}", p.label(), name, t, vb.to_f64(), va.to_f64() * arb, arb, err, tol);
                        rep.violation(sig.clone(), detail.clone(), crate::common::replay_rerun("C14", &sig, &detail, json!({"params": p.to_json(), "factor": arb, "step": t, "seed": seed.to_string()})));
                    } else {
                        rep.violation_again(&sig);
                    }
                    return;
                }
            }
        }
        rep.count("long_arbitrary_factor_streams");
        rep.distinct_by_construction += 1;
    })
}

/// Very long windows (10^5 and 2^17+1 slots) under a shift and a power-of-two factor, for the level-valued
/// window indicators: anything that counts, indexes or weighs with the window length (a weight sum, a slot
/// counter) in a type that is too narrow shows only once that many inputs have been fed.
fn run_long_windows(ctx: &Ctx) -> Report {
    let seed = ctx.seed;
    let mut jobs = Vec::new();
    for kind in [Kind::Sma, Kind::Wma, Kind::Min, Kind::Max] {
        for n in [100_000usize, 131_073] {
            jobs.push((kind, n));
        }
    }
    par_run(jobs, ctx.threads, move |(kind, n), rep| {
        let p = Params::new1(*kind, *n);
        let mut rng = Rng::derive(seed, 0xC14A, *kind as u64 * 1_000_003 + *n as u64);
        let d = *rng.pick(&[1000.0, 4096.0, 250.5]);
        let c = *rng.pick(&[0.25, 8.0, 1024.0]);
        let mut g = BandGen::new(crate::gen::Regime::Walk, 10.0, rng.u64());
        let (mut a, mut b, mut s) = (Inst::new(&p), Inst::new(&p), Inst::new(&p));
        let mut m: f64 = 0.0;
        let steps = *n + 3000;
        for t in 1..=steps {
            let x = (g.next() * 100.0).round() / 100.0;
            m = m.max(x);
            let (oa, ob, os) = match (a.next_f64(x), b.next_f64(x + d), s.next_f64(x * c)) {
                (Ok(u), Ok(v), Ok(w)) => (u, v, w),
                _ => return,
            };
            if t % 10_007 != 0 && t + 200 < *n && t > 200 {
                continue;
            }
            let tq = tau(t);
            for (name, err, tol) in [
                ("shift", (dd(ob.v[0]) - dd(oa.v[0]) - dd(d)).abs().to_f64(), tq * (m + d)),
                ("scale_pow2", (dd(os.v[0]) - dd(c) * dd(oa.v[0])).abs().to_f64(), 1e-12 * c * m),
            ] {
                rep.evaluations += 1;
                rep.ratio(&format!("c14.long_window.{}.{}", kind.name(), name), err / tol);
                if !(err <= tol) {
                    let sig = format!("{}/c14.long_window.{}/mismatch", kind.name(), name);
                    if rep.is_new_sig(&sig) {
                        let detail = format!("{} {}: after {} inputs out(x)={:e}, out(x+{})={:e}, out({}*x)={:e}; |err| {:e} > {:e}", p.label(), name, t, oa.v[0], d, ob.v[0], c, os.v[0], err, tol);
                        rep.violation(sig.clone(), detail.clone(), crate::common::replay_rerun("C14", &sig, &detail, json!({"params": p.to_json(), "shift": d, "factor": c, "step": t, "seed": seed.to_string()})));
                    } else {
                        rep.violation_again(&sig);
                    }
                    return;
                }
            }
        }
        rep.count("long_window_twin_streams");
        rep.distinct_by_construction += 1;
    })
}

pub fn run(ctx: &Ctx) -> Report {
    let mut rep = run_main(ctx);
    rep.merge(run_long_windows(ctx));
    rep.merge(run_dataitem(ctx));
    rep.merge(run_calm(ctx));
    if ctx.only.is_none() && rep.counters.get("calm.twin_streams").copied().unwrap_or(0) == 0 {
        rep.inconclusive.push("coverage floor missed: calm.twin_streams = 0".into());
    }
    rep.merge(run_huge_unit(ctx));
    rep.merge(run_long_arbitrary(ctx));
    rep
}

/// Calm streams: a level L with a bounded relative jitter j (3e-2 .. 1e-6) and nothing else, so that no
/// accumulator ever holds cancellation residue. There the dispersion-valued outputs are compared on their
/// own scale (see `run_twins`), with shifts up to 2^33 * L and arbitrary factors: a formula that is exact in
/// exact arithmetic but loses the dispersion against the level (sum of squares, a flatness test relative to
/// the level) shows here and nowhere else.
fn run_calm(ctx: &Ctx) -> Report {
    let njobs = ctx.pick(1200, 24000);
    let seed = ctx.seed;
    let jobs: Vec<usize> = (0..njobs).collect();
    par_run(jobs, ctx.threads, move |idx, rep| {
        let mut rng = Rng::derive(seed, 0xC14C, *idx as u64);
        let len = rng.range(40, 1500);
        let level = rng.log_uniform(1.0, 1e4);
        let jit = *rng.pick(&[3e-2, 1e-3, 1e-4, 1e-5, 1e-6]);
        let grid = idx % 3 == 0; // a third on an exactly representable grid (level and steps are multiples of 2^-10)
        let level = if grid { (level * 1024.0).round() / 1024.0 } else { level };
        let mut w = 0.0f64;
        let mut path = Vec::with_capacity(len);
        for _ in 0..len {
            w = (w + 0.25 * rng.normal()).clamp(-1.0, 1.0);
            let x = level * (1.0 + jit * w);
            path.push(if grid { (x * 1024.0).round() / 1024.0 } else { x });
        }
        let bars_mode = idx % 2 == 1;
        let inputs: Vec<In> = if bars_mode {
            path.iter().map(|c| {
                let (u1, u2, u3) = (rng.f(), rng.f(), rng.f());
                let h = c + level * jit * 0.5 * u1;
                let l = c - level * jit * 0.5 * u2;
                In::B(Bar { o: l + (h - l) * u3, h, l, c: *c, v: 1.0 + 100.0 * u1 })
            }).collect()
        } else {
            path.iter().map(|x| In::S(*x)).collect()
        };
        let k = rng.range(0, 80) as i32 - 40;
        let pow2 = (2.0f64).powi(k);
        let arb = rng.log_uniform(1e-3, 1e3);
        let d = level * (2.0f64).powi(rng.range(0, 34) as i32);
        for kind in [Kind::Sd, Kind::Bb, Kind::Mad, Kind::Tr, Kind::Atr, Kind::Macd, Kind::Fast, Kind::Kc, Kind::Ce, Kind::Sma, Kind::Wma, Kind::Ema, Kind::Min, Kind::Max] {
            if !bars_mode && !kind.has_scalar() {
                continue;
            }
            let mut p = variant(kind, &mut rng);
            if p.k.abs() > 3.0 {
                p.k = 2.0;
            }
            run_twins(rep, &p, &inputs, pow2, arb, d, Some(3.0 * jit * level));
            rep.count("calm.twin_streams");
            rep.distinct_by_construction += 1;
        }
    })
}

/// The crate's own bar type: a valid OHLCV bar stays valid in any power-of-two unit (order and sign are
/// preserved exactly), so `DataItem::builder()` must accept it, and the indicators fed the re-expressed
/// items must produce the scaled outputs.
fn run_dataitem(ctx: &Ctx) -> Report {
    let njobs = ctx.pick(600, 12000);
    let seed = ctx.seed;
    let jobs: Vec<usize> = (0..njobs).collect();
    par_run(jobs, ctx.threads, move |idx, rep| {
        let mut rng = Rng::derive(seed, 0xC14D, *idx as u64);
        let base = *rng.pick(&[1e-2, 1.0, 50.0, 1e3]);
        let k = rng.range(0, 80) as i32 - 40;
        let pow2 = (2.0f64).powi(k);
        let bars = BarGen::new(BAR_STYLES[idx % BAR_STYLES.len()], base, rng.u64()).take(rng.range(20, 300));
        for kind in ALL_KINDS {
            if kind == Kind::Rsi {
                continue;
            }
            let p = variant(kind, &mut rng);
            let (mut a, mut b) = (Inst::new(&p), Inst::new(&p));
            let mut m = 0.0f64;
            for (i, bar) in bars.iter().enumerate() {
                let sb = bar.scale_prices(pow2);
                m = m.max(bar.h.abs());
                let (ra, rb) = (a.next_item(bar), b.next_item(&sb));
                rep.evaluations += 1;
                match (ra, rb) {
                    (Ok(oa), Ok(ob)) => {
                        let (qa, qb) = (derive(kind, &oa), derive(kind, &ob));
                        for (j, (name, va, _, class)) in qa.iter().enumerate() {
                            let vb = qb[j].1;
                            let (err, tol) = match class {
                                Class::Level | Class::Disp | Class::DispSq => ((vb - dd(pow2) * *va).abs().to_f64(), 1e-12 * pow2 * m),
                                Class::Dimless => ((vb - *va).abs().to_f64(), 1e-12 * 100.0),
                            };
                            if !(err <= tol) && !(vb.hi.is_nan() && va.hi.is_nan()) {
                                let xs: Vec<In> = bars[..=i].iter().map(|x| In::B(*x)).collect();
                                let ys: Vec<In> = bars[..=i].iter().map(|x| In::B(x.scale_prices(pow2))).collect();
                                report(rep, &p, "dataitem_scale_pow2", name, i + 1, format!("{} {} fed DataItems: out(c*x)={:e} vs c*out(x)={:e} (c=2^{})", p.label(), name, vb.to_f64(), va.to_f64() * pow2, k), &xs, &ys, j.min(oa.n - 1), pow2, 0.0, tol);
                                break;
                            }
                        }
                    }
                    (Ok(_), Err(e)) => {
                        let xs: Vec<In> = bars[..=i].iter().map(|x| In::B(*x)).collect();
                        let ys: Vec<In> = bars[..=i].iter().map(|x| In::B(x.scale_prices(pow2))).collect();
                        report(rep, &p, "dataitem_scale_pow2", "accepted", i + 1, format!("{}: the bar {:?} is a valid DataItem, the same bar in units of 2^{} is not ({})", p.label(), bar.fields(), k, e.0), &xs, &ys, 0, pow2, 0.0, 0.0);
                        break;
                    }
                    _ => break,
                }
            }
            rep.count("dataitem.twin_streams");
            rep.distinct_by_construction += 1;
        }
    })
}

fn run_main(ctx: &Ctx) -> Report {
    let njobs = ctx.pick(3200, 64000);
    let seed = ctx.seed;
    let maxlen = ctx.pick(3000usize, 8000usize);
    let jobs: Vec<usize> = (0..njobs).collect();
    let mut rep = par_run(jobs, ctx.threads, move |idx, rep| {
        let mut rng = Rng::derive(seed, 0xC14, *idx as u64);
        let len = rng.range(30, maxlen);
        let base = rng.log_uniform(1e-2, 1e2); // band [base, 1000*base] => magnitudes 1e-2..1e5
        let k = rng.range(0, 80) as i32 - 40;
        let pow2 = (2.0f64).powi(k);
        let arb = rng.log_uniform(1e-6, 1e6);
        let bars_mode = idx % 2 == 1;
        let (inputs, minp): (Vec<In>, f64) = if bars_mode {
            let bs = BarGen::new(BAR_STYLES[(idx / 2) % BAR_STYLES.len()], base, rng.u64()).take(len);
            let mut bs = bs;
            if idx % 8 == 5 {
                // the instrument re-rates once or twice: all later prices 20x higher or lower (a gap many times
                // the previous close, which a shift of the whole stream must not turn into something else)
                let mut f = 1.0;
                let at = [bs.len() / 3, (2 * bs.len()) / 3];
                for (i, b) in bs.iter_mut().enumerate() {
                    if i == at[0] {
                        f *= 20.0;
                    }
                    if i == at[1] {
                        f *= if rng.chance(0.5) { 0.05 } else { 16.0 };
                    }
                    if f != 1.0 {
                        *b = b.scale_prices(f);
                    }
                }
                rep.count("bar_streams_with_rerating_jumps");
            }
            if idx % 8 == 3 {
                // runs of identical bars (a halted instrument): windows that are exactly flat in every unit
                for i in 1..bs.len() {
                    if i % 97 < 30 {
                        bs[i] = bs[i - 1];
                    }
                }
                rep.count("bar_streams_with_runs_of_identical_bars");
            }
            let mn = bs.iter().map(|b| b.l).fold(f64::INFINITY, f64::min);
            (bs.iter().map(|b| In::B(*b)).collect(), mn)
        } else {
            let xs = BandGen::new(BAND_REGIMES[(idx / 2) % BAND_REGIMES.len()], base, rng.u64()).take(len);
            let mn = xs.iter().cloned().fold(f64::INFINITY, f64::min);
            (xs.iter().map(|x| In::S(*x)).collect(), mn)
        };
        // shift keeping prices positive
        let d = if rng.chance(0.5) { rng.log_uniform(1e-3, 1e3) * base } else { -minp * rng.uniform(0.05, 0.9) };
        let head: Vec<f64> = inputs.iter().take(16).flat_map(|x| match x {
            In::S(v) => vec![*v],
            In::B(b) => b.fields().to_vec(),
        }).collect();
        for kind in ALL_KINDS {
            if kind == Kind::Rsi || (!bars_mode && !kind.has_scalar()) {
                continue;
            }
            let p = variant(kind, &mut rng);
            run_twins(rep, &p, &inputs, pow2, arb, d, None);
            rep.count("twin_streams");
            if len > p.max_period() {
                rep.distinct_case(hash_f64s(kind as u64 * 131 + p.p[0] as u64 * 7 + (k + 50) as u64 * 1_000_003, &head));
            }
        }
        rep.count(&format!("pow2.exponent_sign.{}", if k < 0 { "negative" } else if k == 0 { "zero" } else { "positive" }));
        rep.count(if d < 0.0 { "shift.negative" } else { "shift.positive" });
        if !bars_mode {
            let xs: Vec<f64> = inputs.iter().map(|x| if let In::S(v) = x { if rng.chance(0.3) { -*v } else { *v } } else { 0.0 }).collect();
            run_maxmin(rep, 1 + rng.below(40), &xs);
        }
        if rep.wants_sample() && idx % 131 == 0 {
            rep.sample(json!({"stream_head": ops_json(&inputs[..3.min(inputs.len())]), "len": len, "pow2_exponent": k, "arbitrary_factor": arb, "shift": d}));
        }
    });
    if ctx.only.is_none() {
        for key in ["pow2.streams_bit_identical", "arbitrary_factor.judged", "shift.negative", "shift.positive", "max_min_mirror_streams", "pow2.exponent_sign.negative", "pow2.exponent_sign.positive"] {
            if rep.counters.get(key).copied().unwrap_or(0) == 0 {
                rep.inconclusive.push(format!("coverage floor missed: {} = 0", key));
            }
        }
    }
    rep
}
