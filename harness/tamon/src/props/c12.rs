//! C12 — next() is total: no panic or out-of-bounds for any input and valid configuration.

use crate::common::{ops_json_ops, replay_nopanic, Ctx};
use crate::gen::{hostile_bar, hostile_scalar, BarGen, BarStyle, HOSTILE_VALUES};
use crate::inst::{Bar, Inst, Kind, Op, Params, Res, ALL_KINDS};
use crate::report::{par_run, Report};
use crate::rng::Rng;
use serde_json::json;

pub const RULE: &str = "All 22 indicators, every period 1..=64 (every period slot for multi-period ones, others varied), multipliers {0,-1,1e308,NaN,2}: seeded op programs of at least 3n+3 (and at least 60) client calls mixing ordinary values with NaN, +-inf, +-f64::MAX, subnormals, signed zeros, bars violating low<=close<=high, scalar and bar feeds, a second user bar type, reset, clone (clone then driven too), clone_from into a used instance built with the same or different periods, Display, Debug, period(), bincode serialize and serialize-deserialize-swap; sampled periods up to 4096; periods 2^31 .. usize::MAX for the allocation-free indicators; Display and Debug also with width / fill / alignment / precision flags; programs on Default::default() instances incl. ta::DataItem feeds and the constructors' rejection path; programs driven on a brand-new thread that constructed nothing (instance moved there, or restored there from bytes); plus long runs of 1.1*10^6 calls (4.3*10^6 thorough) for periods {1,2,3,7,64} (counters far past every wrap; 6 000 identical bars every 50 000 calls). Each call is wrapped in catch_unwind with the crate built with overflow checks and debug assertions; any panic or serialization error is a violation. Non-trivial: a program with >= 3n+3 next calls containing at least one non-finite or extreme input; distinct by construction (indicator, period tuple, repetition).";

const MULTS: [f64; 5] = [0.0, -1.0, 1e308, f64::NAN, 2.0];

fn violation(rep: &mut Report, p: &Params, ops: &[Op], what: &str, tag: &str) {
    let class = if what.contains("overflow") {
        "overflow"
    } else if what.contains("out of bounds") || what.contains("out of range") {
        "oob"
    } else if what.contains("serialize") {
        "serde_error"
    } else {
        "panic"
    };
    let sig = format!("{}/c12.total/{}/{}", p.kind.name(), class, tag);
    if rep.is_new_sig(&sig) {
        let detail = format!("{} after {} ops: {}", p.label(), ops.len(), what);
        let replay = replay_nopanic("C12", &sig, p, ops_json_ops(ops), &detail);
        rep.violation(sig, detail, replay);
    } else {
        rep.violation_again(&sig);
    }
}

fn gen_op(rng: &mut Rng, kind: Kind, p_hostile: f64) -> Op {
    let r = rng.below(100);
    if r < 4 {
        return Op::Reset;
    }
    if r < 6 {
        return Op::Clone;
    }
    if r < 7 {
        return Op::CloneFromSwap; // clone_from into a used instance (half of them built with other periods)
    }
    if r < 9 {
        return Op::Display;
    }
    if r < 11 {
        return Op::Debug;
    }
    if r < 13 {
        return if r % 2 == 0 { Op::Period } else { Op::Multiplier };
    }
    if r < 14 {
        return Op::Ser;
    }
    if r < 16 {
        return Op::SerDeSwap;
    }
    let scalar = kind.has_scalar() && rng.chance(0.5);
    if scalar {
        Op::NextF(if rng.chance(p_hostile) { hostile_scalar(rng) } else { rng.uniform(-100.0, 100.0) })
    } else {
        let b = if rng.chance(p_hostile) {
            hostile_bar(rng)
        } else {
            let x = rng.uniform(1.0, 100.0);
            match rng.below(3) {
                0 => Bar::flat(x, rng.f()),
                1 => Bar { o: x, h: x + rng.f(), l: x - rng.f(), c: x + rng.uniform(-2.0, 2.0), v: rng.f() * 1e3 }, // may violate l<=c<=h
                _ => Bar { o: x, h: x - 1.0, l: x + 1.0, c: x, v: -1.0 },                                          // high < low, negative volume
            }
        };
        if rng.chance(0.15) {
            Op::NextBar2(b)
        } else {
            Op::NextBar(b)
        }
    }
}

/// run one op program; clones are kept alive and driven with the same ops for a while
pub fn run_program(rep: &mut Report, p: &Params, ops: &[Op], tag: &str) -> bool {
    let mut inst = Inst::new(p);
    let mut clones: Vec<Inst> = Vec::new();
    for (i, op) in ops.iter().enumerate() {
        rep.evaluations += 1;
        if let Op::Clone = op {
            match inst.try_clone() {
                Ok(c) => {
                    if clones.len() >= 3 {
                        clones.remove(0);
                    }
                    clones.push(c);
                }
                Err(e) => {
                    violation(rep, p, &ops[..=i], &e.0, tag);
                    return false;
                }
            }
            continue;
        }
        match inst.apply(op) {
            Res::Panic(m) | Res::Error(m) => {
                violation(rep, p, &ops[..=i], &m, tag);
                return false;
            }
            _ => {}
        }
        for c in clones.iter_mut() {
            if let Res::Panic(m) | Res::Error(m) = c.apply(op) {
                violation(rep, p, &ops[..=i], &format!("(in a clone) {}", m), tag);
                return false;
            }
        }
    }
    true
}

fn params_with_slot(kind: Kind, n: usize, rep: usize) -> Params {
    let mut p = Params::new1(kind, n);
    match kind {
        Kind::Macd | Kind::Ppo => {
            let others = [1usize, 2, 5, 12, 26][rep % 5];
            p.p = match rep % 3 {
                0 => [n, others, 9],
                1 => [others, n, 3],
                _ => [others, 26, n],
            };
        }
        Kind::Slow => p.p = if rep % 2 == 0 { [n, [1usize, 3, 14][rep % 3], 0] } else { [[1usize, 3, 14][rep % 3], n, 0] },
        Kind::Bb | Kind::Kc | Kind::Ce => p.k = MULTS[rep % MULTS.len()],
        _ => {}
    }
    p
}

fn run_periods(ctx: &Ctx) -> Report {
    let reps = ctx.pick(25usize, 400usize);
    let mut jobs = Vec::new();
    for kind in ALL_KINDS {
        let nmax = if kind.n_periods() == 0 { 1 } else { 64 };
        for n in 1..=nmax {
            jobs.push((kind, n));
        }
    }
    let seed = ctx.seed;
    par_run(jobs, ctx.threads, move |(kind, n), rep| {
        for r in 0..reps {
            let p = params_with_slot(*kind, *n, r);
            let mut rng = Rng::derive(seed, 0xC12 + *kind as u64 * 1000 + *n as u64, r as u64);
            let p_hostile = [0.0, 0.05, 0.3, 0.7, 1.0][r % 5];
            let nexts_wanted = (3 * p.max_period() + 3).max(60) + rng.below(40);
            let mut ops = Vec::with_capacity(nexts_wanted + 20);
            let mut nexts = 0;
            while nexts < nexts_wanted {
                let op = gen_op(&mut rng, *kind, p_hostile);
                if matches!(op, Op::NextF(_) | Op::NextBar(_) | Op::NextBar2(_)) {
                    nexts += 1;
                }
                ops.push(op);
            }
            // every hostile value at least once, at a random position late in the program
            if p_hostile > 0.0 {
                for v in HOSTILE_VALUES {
                    let at = rng.range(ops.len() / 2, ops.len());
                    let op = if kind.has_scalar() { Op::NextF(v) } else { Op::NextBar(Bar { o: v, h: v, l: v, c: v, v }) };
                    ops.insert(at, op);
                }
            }
            run_program(rep, &p, &ops, "periods_1_64");
            rep.count("programs");
            rep.count(&format!("period_slot_covered.{}", n.min(&64)));
            if p_hostile > 0.0 {
                rep.distinct_by_construction += 1;
            }
            if rep.wants_sample() && r == 2 && *n == 3 {
                rep.sample(json!({"indicator": p.label(), "ops": ops.len(), "program_head": ops_json_ops(&ops[..8.min(ops.len())])}));
            }
        }
    })
}

fn run_sampled_large(ctx: &Ctx) -> Report {
    let njobs = ctx.pick(660usize, 8800usize);
    let seed = ctx.seed;
    let jobs: Vec<usize> = (0..njobs).collect();
    par_run(jobs, ctx.threads, move |idx, rep| {
        let mut rng = Rng::derive(seed, 0xC12B, *idx as u64);
        let kind = ALL_KINDS[idx % ALL_KINDS.len()];
        if kind.n_periods() == 0 {
            return;
        }
        let n = (rng.log_uniform(65.0, 4096.99) as usize).clamp(65, 4096);
        let p = params_with_slot(kind, n, rng.below(30));
        let p_hostile = *rng.pick(&[0.01, 0.2]);
        let nexts_wanted = 3 * p.max_period().min(4096) + 3;
        let mut ops = Vec::with_capacity(nexts_wanted + 50);
        let mut nexts = 0;
        while nexts < nexts_wanted {
            let op = gen_op(&mut rng, kind, p_hostile);
            if matches!(op, Op::NextF(_) | Op::NextBar(_) | Op::NextBar2(_)) {
                nexts += 1;
            } else if matches!(op, Op::Ser | Op::SerDeSwap | Op::Clone | Op::Debug) && !rng.chance(0.05) {
                continue; // keep the O(n) ops rare for big windows
            }
            ops.push(op);
        }
        run_program(rep, &p, &ops, "periods_65_4096");
        rep.count("programs_large_period");
        rep.distinct_by_construction += 1;
    })
}

/// the allocation-free indicators accept any period up to usize::MAX ("large periods" is not only 4096)
fn run_huge_periods(ctx: &Ctx) -> Report {
    let jobs = crate::common::huge_period_params();
    let seed = ctx.seed;
    par_run(jobs, ctx.threads, move |p, rep| {
        if Inst::try_new(p).is_err() {
            return; // a constructor that rejects or panics on a valid period is C11's claim
        }
        for r in 0..4u64 {
            let mut rng = Rng::derive(seed, 0xC12E, p.p[0] as u64 ^ (p.p[1] as u64).rotate_left(17) ^ r);
            let ops: Vec<Op> = (0..80).map(|_| gen_op(&mut rng, p.kind, 0.1)).collect();
            run_program(rep, p, &ops, "huge_period");
            rep.count("programs_huge_period");
            rep.distinct_by_construction += 1;
        }
    })
}

fn halted(i: usize) -> bool {
    i >= 20_000 && i % 50_000 < 6_000
}

fn run_long(ctx: &Ctx) -> Report {
    let calls = ctx.pick(1_100_000usize, 4_300_000usize); // past 2^20 (quick) / 2^22 (thorough) calls
    let mut jobs = Vec::new();
    for kind in ALL_KINDS {
        for n in [1usize, 2, 3, 7, 64] {
            if kind.n_periods() == 0 && n > 1 {
                continue;
            }
            jobs.push((kind, n));
        }
    }
    let seed = ctx.seed;
    par_run(jobs, ctx.threads, move |(kind, n), rep| {
        let p = params_with_slot(*kind, *n, 4);
        let mut inst = Inst::new(&p);
        let mut g = BarGen::new(BarStyle::Mixed, 1.0, seed ^ (*n as u64 * 77 + *kind as u64));
        let mut held = g.next();
        for i in 0..calls {
            // the instrument is halted now and then: 6 000 identical bars every 50 000 calls (exponential
            // averages decay through the subnormal range to exactly zero, windows go and stay flat)
            let b = if halted(i) { held } else { g.next() };
            held = b;
            let r = if kind.has_scalar() && i % 3 == 0 { inst.next_f64(b.c) } else { inst.next_bar(&b) };
            rep.evaluations += 1;
            if let Err(e) = r {
                // the witness is the call count: rebuild the stream for the replay file
                let mut g2 = BarGen::new(BarStyle::Mixed, 1.0, seed ^ (*n as u64 * 77 + *kind as u64));
                let mut held2 = g2.next();
                let ops: Vec<Op> = (0..=i).map(|k| { let b = if halted(k) { held2 } else { g2.next() }; held2 = b; if kind.has_scalar() && k % 3 == 0 { Op::NextF(b.c) } else { Op::NextBar(b) } }).collect();
                violation(rep, &p, &ops, &e.0, "long_run");
                return;
            }
        }
        rep.count("long_runs");
        rep.distinct_by_construction += 1;
    })
}

/// Default::default() instances, ta::DataItem feeds, and the constructor's error path
fn run_defaults(ctx: &Ctx) -> Report {
    let seed = ctx.seed;
    let reps = ctx.pick(20usize, 200usize);
    let jobs: Vec<Kind> = ALL_KINDS.to_vec();
    par_run(jobs, ctx.threads, move |kind, rep| {
        for r in 0..reps {
            let mut rng = Rng::derive(seed, 0xC12D + *kind as u64, r as u64);
            let p = kind.default_params();
            let mut inst = match Inst::new_default(*kind) {
                Ok(i) => i,
                Err(e) => {
                    violation(rep, &p, &[], &format!("Default::default() panicked: {}", e.0), "defaults");
                    return;
                }
            };
            let mut ops = Vec::new();
            let mut g = crate::gen::BarGen::new(crate::gen::BarStyle::Mixed, 1.0, rng.u64());
            for i in 0..(3 * p.max_period() + 10) {
                let op = match i % 5 {
                    0 => Op::NextItem(g.next()), // a valid bar through ta::DataItem
                    1 if kind.has_scalar() => Op::NextF(hostile_scalar(&mut rng)),
                    2 => Op::NextBar(hostile_bar(&mut rng)),
                    _ => gen_op(&mut rng, *kind, 0.1),
                };
                ops.push(op.clone());
                rep.evaluations += 1;
                if let Res::Panic(m) | Res::Error(m) = inst.apply(&op) {
                    violation(rep, &p, &ops, &m, "defaults");
                    return;
                }
            }
            // the constructor's rejection path must return, not panic
            if kind.n_periods() > 0 {
                let mut z = p;
                z.p[r % kind.n_periods()] = 0;
                rep.evaluations += 1;
                if let Err(crate::inst::NewError::Panic(m)) = Inst::try_new(&z) {
                    violation(rep, &z, &[], &format!("constructor panicked on a zero period: {}", m), "defaults");
                }
            }
            rep.count("programs_on_default_instances");
            rep.distinct_by_construction += 1;
        }
    })
}

/// the instance is constructed (or restored from bytes) on one thread and driven on a brand-new
/// thread that has constructed nothing: no per-thread setup may be assumed by next()
fn run_foreign_thread(ctx: &Ctx) -> Report {
    let seed = ctx.seed;
    let reps = ctx.pick(2usize, 12usize);
    let mut jobs = Vec::new();
    for kind in ALL_KINDS {
        for n in [1usize, 2, 7, 33, 100] {
            if kind.n_periods() == 0 && n > 1 {
                continue;
            }
            jobs.push((kind, n));
        }
    }
    par_run(jobs, ctx.threads, move |(kind, n), rep| {
        for r in 0..reps {
            let p = params_with_slot(*kind, *n, r);
            let mut rng = Rng::derive(seed, 0xC12F + *kind as u64 * 1000 + *n as u64, r as u64);
            let mut ops = Vec::new();
            for _ in 0..(3 * p.max_period() + 6) {
                ops.push(gen_op(&mut rng, *kind, 0.1));
            }
            let mut inst = Inst::new(&p);
            // half of the instances arrive as bytes and are restored on the foreign thread
            let via_bytes = r % 2 == 1;
            let bytes = if via_bytes { inst.ser().ok() } else { None };
            let ops2 = ops.clone();
            let res = std::thread::spawn(move || {
                let mut inst = inst;
                if let Some(b) = bytes {
                    match inst.de(&b) {
                        Ok(restored) => inst = restored,
                        Err(e) => return Some((0usize, e.0)),
                    }
                }
                for (i, op) in ops2.iter().enumerate() {
                    if let Res::Panic(m) | Res::Error(m) = inst.apply(op) {
                        return Some((i, m));
                    }
                }
                None
            })
            .join();
            rep.evaluations += ops.len() as u64;
            match res {
                Ok(None) => {}
                Ok(Some((i, m))) => violation(rep, &p, &ops[..=i.min(ops.len() - 1)], &m, "foreign_thread"),
                Err(_) => violation(rep, &p, &ops, "the foreign thread itself panicked", "foreign_thread"),
            }
            rep.count("programs_on_foreign_thread");
            rep.distinct_by_construction += 1;
        }
    })
}

pub fn run(ctx: &Ctx) -> Report {
    let mut rep = Report::new();
    if ctx.phase_enabled("foreign") {
        rep.merge(run_foreign_thread(ctx));
    }
    if ctx.phase_enabled("defaults") {
        rep.merge(run_defaults(ctx));
    }
    if ctx.phase_enabled("periods") {
        rep.merge(run_periods(ctx));
    }
    if ctx.phase_enabled("large") {
        rep.merge(run_sampled_large(ctx));
    }
    if ctx.phase_enabled("long") {
        rep.merge(run_long(ctx));
    }
    if ctx.phase_enabled("huge") {
        rep.merge(run_huge_periods(ctx));
    }
    if ctx.only.is_none() {
        for n in 1..=64 {
            let key = format!("period_slot_covered.{}", n);
            if rep.counters.get(&key).copied().unwrap_or(0) == 0 {
                rep.inconclusive.push(format!("coverage floor missed: {} = 0", key));
            }
        }
        for key in ["programs_large_period", "programs_huge_period", "long_runs", "programs_on_default_instances", "programs_on_foreign_thread"] {
            if rep.counters.get(key).copied().unwrap_or(0) == 0 {
                rep.inconclusive.push(format!("coverage floor missed: {} = 0", key));
            }
        }
    }
    rep
}
