//! Workload generators (DESIGN §3 "Workload families"). Everything is seeded; nothing reads the clock.

use crate::inst::Bar;
use crate::rng::Rng;

#[derive(Clone, Copy, Debug, PartialEq)]
pub enum Regime {
    /// multiplicative random walk inside the band, reflecting at the edges
    Walk,
    /// alternate between the two extremes of the band (with jitter)
    AltExtremes,
    /// walk with rare spikes to the top of the band
    Spikes,
    /// long plateaus separated by jumps
    Plateau,
    /// linear saw-tooth from m to 1000m with the given tooth length
    Saw(usize),
    /// alternate between two exact values
    AltExact,
    /// uniform in the band
    Uniform,
    /// integer-valued (many ties)
    Integer,
    /// heavy tailed (log-uniform over the whole band)
    LogUniform,
    /// monotone runs up then down
    Monotone,
    /// quiet walk near the band floor with rare "bad ticks" 1e6..3e7 times larger (high dynamic range:
    /// residue left in running sums is large relative to the quiet values that follow)
    BadTicks,
    /// an almost flat level (relative jitter 1e-6) with rare spikes 1000x higher: after a spike leaves a
    /// window, what is left is tiny true dispersion plus the spike's rounding residue
    QuietSpikes,
    /// random walk on a price grid (tick = m/4, steps of -2..=2 ticks): exact ties between neighbours and
    /// across a window, new lows/highs arriving among duplicates of the old one — what quantised quotes do
    Ticks,
    /// a level just below a power of two (near 1000 * m) with nothing but a few ulps of noise: windows that are
    /// flat to within rounding, where a difference of two rounded aggregates can come out with the wrong sign
    UlpNoise,
    /// a level with a relative jitter of 1e-8, 1e-10 or 1e-11 (fixed per stream): dispersion far above
    /// rounding and far below anything a "relative to the price" threshold would call real
    Quiet,
}

pub const BAND_REGIMES: [Regime; 15] = [
    Regime::Walk,
    Regime::AltExtremes,
    Regime::Spikes,
    Regime::Plateau,
    Regime::Saw(100),
    Regime::Saw(7),
    Regime::AltExact,
    Regime::Uniform,
    Regime::Integer,
    Regime::LogUniform,
    Regime::BadTicks,
    Regime::QuietSpikes,
    Regime::Ticks,
    Regime::UlpNoise,
    Regime::Quiet,
];

impl Regime {
    pub fn label(&self) -> String {
        match self {
            Regime::Saw(k) => format!("saw{}", k),
            r => format!("{:?}", r).to_lowercase(),
        }
    }
}

/// Values inside the band [m, 1000·m].
#[derive(Clone, Debug)]
pub struct BandGen {
    pub regime: Regime,
    pub m: f64,
    rng: Rng,
    cur: f64,
    i: usize,
    hold: usize,
    dir: f64,
}

impl BandGen {
    pub fn new(regime: Regime, m: f64, seed: u64) -> BandGen {
        let mut rng = Rng::new(seed);
        let cur = m * rng.log_uniform(1.0, 1000.0);
        BandGen { regime, m, rng, cur, i: 0, hold: 0, dir: 1.0 }
    }
    pub fn next(&mut self) -> f64 {
        let (lo, hi) = (self.m, 1000.0 * self.m);
        self.i += 1;
        let r = &mut self.rng;
        let v = match self.regime {
            Regime::Walk => {
                let step = 1.0 + 0.02 * r.normal();
                self.cur *= step.max(0.5);
                if self.cur > hi {
                    self.cur = hi * hi / self.cur;
                }
                if self.cur < lo {
                    self.cur = lo * lo / self.cur;
                }
                self.cur.clamp(lo, hi)
            }
            Regime::AltExtremes => {
                if self.i % 2 == 0 {
                    lo * (1.0 + 0.01 * r.f())
                } else {
                    hi * (1.0 - 0.01 * r.f())
                }
            }
            Regime::Spikes => {
                if r.chance(0.003) {
                    hi
                } else {
                    self.cur = (self.cur * (1.0 + 0.01 * r.normal())).clamp(lo, 3.0 * lo);
                    self.cur
                }
            }
            Regime::Plateau => {
                if self.hold == 0 {
                    self.hold = 1 + r.below(400);
                    self.cur = lo * r.log_uniform(1.0, 1000.0);
                }
                self.hold -= 1;
                self.cur
            }
            Regime::Saw(k) => {
                let k = k.max(2);
                let ph = (self.i - 1) % k;
                lo + (hi - lo) * (ph as f64) / ((k - 1) as f64)
            }
            Regime::AltExact => {
                if self.i % 2 == 0 {
                    lo * 3.0
                } else {
                    lo * 700.0
                }
            }
            Regime::Ticks => {
                let tick = lo * 0.25;
                if self.i == 1 {
                    self.cur = lo * (2 + r.below(40)) as f64;
                }
                let step = r.below(5) as f64 - 2.0;
                self.cur = (self.cur + step * tick).clamp(lo, hi);
                self.cur
            }
            Regime::Quiet => {
                if self.i == 1 {
                    self.dir = [1e-8, 1e-10, 1e-11][r.below(3)];
                    self.cur = lo * r.log_uniform(1.0, 1000.0);
                }
                self.cur * (1.0 + self.dir * (r.below(9) as f64 - 4.0))
            }
            Regime::UlpNoise => {
                // just below a power of two whatever the band floor is
                // (and not a dyadic number itself: sums of the window must round)
                let level = (2.0f64).powi((lo * 1000.0).log2().ceil() as i32) * (1023.99 / 1024.0);
                f64::from_bits(level.to_bits() - 3 + r.below(7) as u64)
            }
            Regime::Uniform => r.uniform(lo, hi),
            Regime::Integer => lo * (1 + r.below(12)) as f64,
            Regime::LogUniform => lo * r.log_uniform(1.0, 1000.0),
            Regime::QuietSpikes => {
                if r.chance(0.004) {
                    hi * (1.0 - 0.1 * r.f())
                } else {
                    lo * (1.0 + 3e-6 * r.normal())
                }
            }
            Regime::BadTicks => {
                self.cur = (self.cur * (1.0 + 0.01 * r.normal())).clamp(lo, 3.0 * lo);
                if r.chance(0.004) {
                    self.cur * r.log_uniform(1e6, 3e7)
                } else {
                    self.cur
                }
            }
            Regime::Monotone => {
                if self.hold == 0 {
                    self.hold = 5 + r.below(300);
                    self.dir = -self.dir;
                }
                self.hold -= 1;
                self.cur *= 1.0 + self.dir * 0.004 * r.f();
                if self.cur > hi {
                    self.cur = hi;
                    self.dir = -1.0;
                }
                if self.cur < lo {
                    self.cur = lo;
                    self.dir = 1.0;
                }
                self.cur
            }
        };
        v
    }
    pub fn take(&mut self, n: usize) -> Vec<f64> {
        (0..n).map(|_| self.next()).collect()
    }
}

/// `RAND` scalar streams: any sign, magnitudes to 1e12.
#[derive(Clone, Copy, Debug, PartialEq)]
pub enum RandKind {
    Uniform,
    HeavyTail,
    Integer,
    MixedSign,
    LogMag,
    MonotoneRuns,
    CancelTail,
    AltDecades,
    /// magnitudes 1e100..1e150 (products of two values stay finite), any sign
    Huge,
    /// magnitudes 1e-150..1e-100
    Tiny,
}
pub const RAND_KINDS: [RandKind; 8] = [
    RandKind::Uniform,
    RandKind::HeavyTail,
    RandKind::Integer,
    RandKind::MixedSign,
    RandKind::LogMag,
    RandKind::MonotoneRuns,
    RandKind::CancelTail,
    RandKind::AltDecades,
];

pub fn rand_stream(kind: RandKind, len: usize, rng: &mut Rng) -> Vec<f64> {
    let mut v = Vec::with_capacity(len);
    match kind {
        RandKind::Uniform => {
            let s = rng.log_uniform(1e-3, 1e6);
            for _ in 0..len {
                v.push(rng.uniform(-s, s));
            }
        }
        RandKind::HeavyTail => {
            let s = rng.log_uniform(1e-3, 1e3);
            for _ in 0..len {
                let x = s * rng.normal() / (rng.f() + 1e-3);
                v.push(x.clamp(-1e12, 1e12));
            }
        }
        RandKind::Integer => {
            let k = 2 + rng.below(6);
            for _ in 0..len {
                v.push(rng.below(k) as f64 - (k / 2) as f64);
            }
        }
        RandKind::MixedSign => {
            let s = rng.log_uniform(1e-2, 1e4);
            let mut x = 0.0;
            for _ in 0..len {
                x += s * rng.normal();
                v.push(x);
            }
        }
        RandKind::LogMag => {
            for _ in 0..len {
                let mag = rng.log_uniform(1e-12, 1e12);
                v.push(if rng.chance(0.5) { mag } else { -mag });
            }
        }
        RandKind::MonotoneRuns => {
            let mut x = rng.uniform(-100.0, 100.0);
            let mut dir = 1.0;
            for i in 0..len {
                if i % (3 + rng.below(40)) == 0 {
                    dir = -dir;
                }
                x += dir * rng.f();
                v.push(x);
            }
        }
        RandKind::CancelTail => {
            // huge values, then a flat / tiny tail: variance cancellation
            let big = rng.log_uniform(1e6, 1e12);
            let small = rng.log_uniform(1e-3, 10.0);
            let cut = len / 3 + rng.below(len / 3 + 1);
            for i in 0..len {
                if i < cut {
                    v.push(big * rng.uniform(-1.0, 1.0));
                } else if rng.chance(0.3) {
                    v.push(small * rng.f());
                } else {
                    v.push(small);
                }
            }
        }
        RandKind::Huge | RandKind::Tiny => {
            let (lo, hi) = if kind == RandKind::Huge { (1e100, 1e150) } else { (1e-150, 1e-100) };
            let s = rng.log_uniform(lo, hi / 1e3);
            for _ in 0..len {
                let x = s * rng.log_uniform(1.0, 1e3);
                v.push(if rng.chance(0.4) { -x } else { x });
            }
        }
        RandKind::AltDecades => {
            let a = rng.log_uniform(1e-6, 1.0);
            let b = rng.log_uniform(1e3, 1e9);
            for i in 0..len {
                let j = 1.0 + 1e-3 * rng.f();
                v.push(if i % 2 == 0 { a * j } else { b * j });
            }
        }
    }
    v
}

/// log-sampled period in 1..=max plus the boundary cases around `len`
pub fn rand_period(rng: &mut Rng, max: usize, len: usize) -> usize {
    match rng.below(10) {
        0 => 1,
        1 => 2,
        2 => 3,
        3 => len.saturating_sub(1).clamp(1, max),
        4 => len.clamp(1, max),
        5 => (len + 1).clamp(1, max),
        _ => (rng.log_uniform(1.0, max as f64 + 0.99) as usize).clamp(1, max),
    }
}

// ---------------------------------------------------------------------------------------------
// bars

#[derive(Clone, Copy, Debug, PartialEq)]
pub enum BarStyle {
    Trend,
    Oscillate,
    Gappy,
    Inside,
    NearlyFlat,
    Mixed,
    /// every price a multiple of a tick (base/4) a few ticks around a slowly moving level, volumes from a
    /// handful of round lots: quantised quotes. Typical prices of different bars tie exactly, highs and lows
    /// repeat, closes repeat — and all the sums involved are exact in f64 when the tick is dyadic.
    TickGrid,
}
pub const BAR_STYLES: [BarStyle; 7] = [BarStyle::Trend, BarStyle::Oscillate, BarStyle::Gappy, BarStyle::Inside, BarStyle::NearlyFlat, BarStyle::Mixed, BarStyle::TickGrid];

/// Valid OHLCV bars (low <= open,close <= high, volume >= 0, all prices > 0) around a price path.
/// `close` is deliberately *not* (high+low)/2.
pub struct BarGen {
    pub style: BarStyle,
    rng: Rng,
    price: f64,
    base: f64,
    i: usize,
    vol_base: f64,
    prev: Option<Bar>,
}

impl BarGen {
    pub fn new(style: BarStyle, base: f64, seed: u64) -> BarGen {
        let mut rng = Rng::new(seed);
        let vol_base = rng.log_uniform(1.0, 1e4);
        BarGen { style, rng, price: base * 30.0, base, i: 0, vol_base, prev: None }
    }
    pub fn next(&mut self) -> Bar {
        self.i += 1;
        let style = if self.style == BarStyle::Mixed { *self.rng.pick(&BAR_STYLES[..5]) } else { self.style };
        if style == BarStyle::TickGrid {
            let r = &mut self.rng;
            let tick = self.base * 0.25;
            let mut k = (self.price / tick).round();
            k = (k + (r.below(5) as f64 - 2.0)).clamp(8.0, 4000.0);
            self.price = k * tick;
            let o = k + (r.below(5) as f64 - 2.0);
            let c = k + (r.below(5) as f64 - 2.0);
            let h = o.max(c) + r.below(3) as f64;
            let l = o.min(c) - r.below(3) as f64;
            let lots = [0.0, 100.0, 100.0, 200.0, 500.0, 1000.0];
            let bar = match self.prev {
                Some(pb) if r.chance(0.06) => pb,
                _ => Bar { o: o * tick, h: h * tick, l: l * tick, c: c * tick, v: lots[r.below(lots.len())] },
            };
            self.prev = Some(bar);
            return bar;
        }
        let r = &mut self.rng;
        let lo_b = self.base;
        let hi_b = self.base * 1000.0;
        let p = self.price;
        let (open, close, wig) = match style {
            BarStyle::Trend => {
                let drift = if (self.i / 60) % 2 == 0 { 1.004 } else { 0.996 };
                let c = p * drift * (1.0 + 0.003 * r.normal());
                (p, c, 0.004)
            }
            BarStyle::Oscillate => {
                let c = p * if self.i % 2 == 0 { 1.03 } else { 1.0 / 1.03 } * (1.0 + 0.002 * r.normal());
                (p * (1.0 + 0.001 * r.normal()), c, 0.01)
            }
            BarStyle::Gappy => {
                // open far from previous close: exercises |high - prev close| and |low - prev close|
                let g = if r.chance(0.5) { 1.0 + 0.05 * r.f() } else { 1.0 - 0.05 * r.f() };
                let o = p * g;
                (o, o * (1.0 + 0.004 * r.normal()), 0.002)
            }
            BarStyle::Inside => {
                // range inside the previous bar's range
                match self.prev {
                    Some(pb) if pb.h > pb.l => {
                        let a = r.uniform(pb.l, pb.h);
                        let b = r.uniform(pb.l, pb.h);
                        (a, b, 0.0)
                    }
                    _ => (p, p * (1.0 + 0.01 * r.normal()), 0.01),
                }
            }
            BarStyle::NearlyFlat => {
                if r.chance(0.5) {
                    (p, p, 0.0)
                } else {
                    (p, p * (1.0 + 1e-9 * r.normal()), 1e-10)
                }
            }
            BarStyle::Mixed | BarStyle::TickGrid => unreachable!(),
        };
        let open = open.clamp(lo_b, hi_b);
        let close = close.clamp(lo_b, hi_b);
        let top = open.max(close);
        let bot = open.min(close);
        let (mut high, mut low) = if style == BarStyle::Inside && self.prev.map(|b| b.h > b.l).unwrap_or(false) {
            let pb = self.prev.unwrap();
            (r.uniform(top, pb.h.max(top)), r.uniform(pb.l.min(bot), bot))
        } else {
            (top * (1.0 + wig * r.f()), bot * (1.0 - wig * r.f()))
        };
        if r.chance(0.1) {
            high = top; // close or open sits exactly on the high
        }
        if r.chance(0.1) {
            low = bot;
        }
        // volume over 6 decades incl. exact zero and repeats
        let volume = match r.below(10) {
            0 => 0.0,
            1 => self.vol_base,
            _ => self.vol_base * r.log_uniform(1e-3, 1e3),
        };
        // occasionally repeat the previous bar exactly (equal neighbours)
        let bar = match self.prev {
            Some(pb) if r.chance(0.04) => pb,
            _ => Bar { o: open, h: high.max(top), l: low.min(bot).max(lo_b * 0.5), c: close, v: volume },
        };
        let bar = Bar { l: bar.l.min(bar.o).min(bar.c), h: bar.h.max(bar.o).max(bar.c), ..bar };
        self.price = bar.c;
        self.prev = Some(bar);
        debug_assert!(bar.is_valid());
        bar
    }
    pub fn take(&mut self, n: usize) -> Vec<Bar> {
        (0..n).map(|_| self.next()).collect()
    }
}

/// bars whose five fields vary independently (not consistent OHLC)
pub fn bars5(len: usize, rng: &mut Rng) -> Vec<Bar> {
    // mostly ordinary magnitudes, sometimes tiny or huge price units
    let s = match rng.below(6) {
        0 => rng.log_uniform(1e-20, 1e-12),
        1 => rng.log_uniform(1e9, 1e15),
        _ => rng.log_uniform(1e-2, 1e5),
    };
    let signed = rng.chance(0.3);
    (0..len)
        .map(|_| {
            let mut f = [0.0; 5];
            for x in f.iter_mut() {
                *x = match rng.below(16) {
                    0 | 1 => (1 + rng.below(5)) as f64 * s, // ties across fields
                    2 => 0.0,                               // exact zeros ("no trade" bars)
                    3 => -0.0,
                    _ => s * rng.log_uniform(0.01, 100.0),
                };
                if signed && rng.chance(0.3) {
                    *x = -*x;
                }
            }
            Bar::from_fields(f)
        })
        .collect()
}

/// the realistic seed: AMZN daily bars from the repository's examples, tiled and perturbed
pub fn amzn_bars(path: &str) -> Vec<Bar> {
    let mut out = Vec::new();
    if let Ok(txt) = std::fs::read_to_string(path) {
        for line in txt.lines().skip(1) {
            let f: Vec<&str> = line.split(',').collect();
            if f.len() >= 6 {
                let p = |s: &str| s.trim().parse::<f64>().ok();
                if let (Some(o), Some(h), Some(l), Some(c), Some(v)) = (p(f[1]), p(f[2]), p(f[3]), p(f[4]), p(f[5])) {
                    let b = Bar { o, h, l, c, v };
                    if b.is_valid() {
                        out.push(b);
                    }
                }
            }
        }
    }
    out
}

/// special float values for HOSTILE streams
pub const HOSTILE_VALUES: [f64; 14] = [
    f64::NAN,
    f64::INFINITY,
    f64::NEG_INFINITY,
    f64::MAX,
    f64::MIN,
    f64::MIN_POSITIVE,
    5e-324,
    -5e-324,
    0.0,
    -0.0,
    1e308,
    -1e308,
    1e-308,
    f64::EPSILON,
];

pub fn hostile_scalar(rng: &mut Rng) -> f64 {
    if rng.chance(0.25) {
        *rng.pick(&HOSTILE_VALUES)
    } else {
        match rng.below(4) {
            0 => rng.uniform(-100.0, 100.0),
            1 => rng.below(5) as f64,
            2 => rng.log_uniform(1e-300, 1e300),
            _ => rng.normal() * 1e3,
        }
    }
}
pub fn hostile_bar(rng: &mut Rng) -> Bar {
    let mut f = [0.0; 5];
    for x in f.iter_mut() {
        *x = hostile_scalar(rng);
    }
    Bar::from_fields(f)
}
