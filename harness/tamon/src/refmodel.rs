//! Reference models written from the property statements (not from the crate's code).
//! Window statistics are recomputed from the harness's own copy of the last n (n+1) inputs at every
//! step, in double-double; EMA-style recursions are carried in double-double over the whole history.

use crate::dd::{dd, Dd};
use crate::inst::{Bar, In, Kind, Params};
use std::cmp::Ordering;
use std::collections::VecDeque;

pub const EPS: f64 = f64::EPSILON; // 2^-52

/// τ(t) = 1e-12 + 1e-15·t^1.5, exactly as in the properties
#[inline]
pub fn tau(t: usize) -> f64 {
    let tf = t as f64;
    1e-12 + 1e-15 * tf * tf.sqrt()
}

#[derive(Clone, Copy, Debug)]
pub struct RefOut {
    pub n: usize,
    /// reference components — see `RefModel::push` for the meaning per kind
    pub v: [Dd; 3],
    /// condition number of the formula at this step (1 where the property applies no conditioning)
    pub c: [f64; 3],
    /// the reference denominator is exactly zero / the documented neutral case applies
    pub degenerate: bool,
    /// a comparison the formula branches on is within rounding of a tie (reference is ambiguous)
    pub near_tie: bool,
    /// the neutral case is exact in f64 as well (CCI: every bar of the window carries bit-identical
    /// high, low and close, so the typical prices are equal however they are rounded)
    pub exact_neutral: bool,
    /// the stronger of the two reasons: the window's bars are bit-identical (stays true in any price unit)
    pub identical_window: bool,
    /// largest |price field the indicator is documented to read| since reset
    pub m: f64,
    /// natural scale of the output for ratio oscillators (100, 1, 1/0.015, cumulative volume)
    pub scale: f64,
    pub t: usize,
}

/// a + b + c is exact in f64 whatever the order of the two additions
pub fn exact_sum3(a: f64, b: f64, c: f64) -> bool {
    let ex = |x: f64, y: f64| {
        let s = x + y;
        s.is_finite() && (dd(x) + dd(y)).lo == 0.0 && (dd(x) + dd(y)).hi == s
    };
    let ex3 = |x: f64, y: f64, z: f64| ex(x, y) && ex(x + y, z);
    ex3(a, b, c) && ex3(a, c, b) && ex3(b, c, a)
}

// ---------------------------------------------------------------------------------------------
// window statistics by definition

pub fn w_mean<'a, I: Iterator<Item = &'a f64> + Clone>(it: I) -> Dd {
    let mut s = Dd::ZERO;
    let mut k = 0usize;
    for &x in it {
        s = s + dd(x);
        k += 1;
    }
    s / Dd::from_usize(k)
}
/// weights 1..k, newest (last) heaviest, divided by k(k+1)/2
pub fn w_wma<'a, I: Iterator<Item = &'a f64> + Clone>(it: I) -> Dd {
    let mut s = Dd::ZERO;
    let mut k = 0usize;
    for &x in it {
        k += 1;
        s = s + dd(x) * Dd::from_usize(k);
    }
    s / (Dd::from_usize(k) * Dd::from_usize(k + 1) / dd(2.0))
}
/// population variance
pub fn w_var<'a, I: Iterator<Item = &'a f64> + Clone>(it: I) -> (Dd, Dd) {
    let mean = w_mean(it.clone());
    let mut s = Dd::ZERO;
    let mut k = 0usize;
    for &x in it {
        s = s + (dd(x) - mean).sqr();
        k += 1;
    }
    (mean, s / Dd::from_usize(k))
}
/// mean absolute deviation about the window mean
pub fn w_mad<'a, I: Iterator<Item = &'a f64> + Clone>(it: I) -> (Dd, Dd) {
    let mean = w_mean(it.clone());
    let mut s = Dd::ZERO;
    let mut k = 0usize;
    for &x in it {
        s = s + (dd(x) - mean).abs();
        k += 1;
    }
    (mean, s / Dd::from_usize(k))
}
pub fn w_min<'a, I: Iterator<Item = &'a f64>>(it: I) -> f64 {
    let mut m = f64::INFINITY;
    for &x in it {
        if x < m {
            m = x;
        }
    }
    m
}
pub fn w_max<'a, I: Iterator<Item = &'a f64>>(it: I) -> f64 {
    let mut m = f64::NEG_INFINITY;
    for &x in it {
        if x > m {
            m = x;
        }
    }
    m
}
pub fn dd_mean_dd(xs: &VecDeque<Dd>) -> Dd {
    let mut s = Dd::ZERO;
    for &x in xs {
        s = s + x;
    }
    s / Dd::from_usize(xs.len())
}

/// α = 2/(n+1) as an (almost) exact rational
pub fn alpha(n: usize) -> Dd {
    dd(2.0) / (Dd::from_usize(n) + Dd::ONE)
}

/// documented EMA, carried
#[derive(Clone, Copy, Debug)]
pub struct RefEma {
    pub a: Dd,
    pub cur: Dd,
    pub init: bool,
}
impl RefEma {
    pub fn new(n: usize) -> RefEma {
        RefEma { a: alpha(n), cur: Dd::ZERO, init: false }
    }
    pub fn push(&mut self, x: Dd) -> Dd {
        if !self.init {
            self.init = true;
            self.cur = x;
        } else {
            self.cur = self.a * x + (Dd::ONE - self.a) * self.cur;
        }
        self.cur
    }
    pub fn reset(&mut self) {
        self.init = false;
        self.cur = Dd::ZERO;
    }
}
/// the same recursion on plain f64 bounds (condition numbers, error bounds)
#[derive(Clone, Copy, Debug)]
pub struct BoundEma {
    a: f64,
    cur: f64,
    init: bool,
}
impl BoundEma {
    pub fn new(n: usize) -> BoundEma {
        BoundEma { a: 2.0 / (n as f64 + 1.0), cur: 0.0, init: false }
    }
    pub fn push(&mut self, x: f64) -> f64 {
        if !self.init {
            self.init = true;
            self.cur = x;
        } else {
            self.cur = self.a * x + (1.0 - self.a) * self.cur;
        }
        self.cur
    }
    pub fn reset(&mut self) {
        self.init = false;
        self.cur = 0.0;
    }
}

/// EMA from scratch over a whole history (used to confirm the carried value at sampled steps)
pub fn ema_from_scratch(xs: &[Dd], n: usize) -> Dd {
    let mut e = RefEma::new(n);
    let mut last = Dd::ZERO;
    for &x in xs {
        last = e.push(x);
    }
    last
}

// ---------------------------------------------------------------------------------------------

#[derive(Clone, Debug)]
pub struct RefModel {
    pub p: Params,
    pub t: usize,
    pub m: f64,
    /// the documented scalar series (close; low for MIN; high for MAX; x for scalar feeds): last n+1
    pub w: VecDeque<f64>,
    pub wh: VecDeque<f64>,
    pub wl: VecDeque<f64>,
    /// typical prices (dd): last n+1
    pub wtp: VecDeque<Dd>,
    /// MFI: signed flows of the last n moves (sign, raw flow), and near-tie flags
    flows: VecDeque<(i8, Dd)>,
    ties: VecDeque<bool>,
    prev: Option<f64>,
    prev_hlc: Option<[f64; 3]>,
    e: [RefEma; 3],
    eb: [BoundEma; 2],
    obv: Dd,
    obv_scale: f64,
    max_flow: f64,
    /// whether every bar currently relevant to FAST on bars satisfied low <= close <= high
    pub bars_valid: VecDeque<bool>,
}

impl RefModel {
    pub fn new(p: &Params) -> RefModel {
        let n = p.n();
        let pe = |i: usize| if p.p[i] > 0 { p.p[i] } else { 1 };
        let (e, eb) = match p.kind {
            Kind::Macd | Kind::Ppo => ([RefEma::new(pe(0)), RefEma::new(pe(1)), RefEma::new(pe(2))], [BoundEma::new(pe(2)), BoundEma::new(pe(2))]),
            Kind::Slow => ([RefEma::new(pe(1)), RefEma::new(1), RefEma::new(1)], [BoundEma::new(pe(1)), BoundEma::new(pe(1))]),
            // EMA, ATR, KC (avg, atr), CE (atr), RSI (U, D)
            _ => ([RefEma::new(n), RefEma::new(n), RefEma::new(n)], [BoundEma::new(n), BoundEma::new(n)]),
        };
        RefModel {
            p: *p,
            t: 0,
            m: 0.0,
            w: VecDeque::with_capacity(n.min(1 << 20) + 2),
            wh: VecDeque::new(),
            wl: VecDeque::new(),
            wtp: VecDeque::new(),
            flows: VecDeque::new(),
            ties: VecDeque::new(),
            prev: None,
            prev_hlc: None,
            e,
            eb,
            obv: Dd::ZERO,
            obv_scale: 0.0,
            max_flow: 0.0,
            bars_valid: VecDeque::new(),
        }
    }
    pub fn reset(&mut self) {
        *self = RefModel::new(&self.p);
    }
    fn n(&self) -> usize {
        self.p.n()
    }
    /// window of the last min(t, n) values of the documented series
    pub fn window(&self) -> impl Iterator<Item = &f64> + Clone {
        let n = self.n();
        let skip = self.w.len().saturating_sub(n);
        self.w.iter().skip(skip)
    }
    fn note_m(&mut self, x: f64) {
        let a = x.abs();
        if a > self.m {
            self.m = a;
        }
    }

    /// Window-only kinds (SMA, WMA, SD, MAD, MIN, MAX, BB): record the input without evaluating
    /// anything (the reference has no carried state for these, so skipping evaluation is exact).
    pub fn push_quiet(&mut self, s: f64) {
        debug_assert!(matches!(self.p.kind, Kind::Sma | Kind::Wma | Kind::Sd | Kind::Mad | Kind::Min | Kind::Max | Kind::Bb));
        self.t += 1;
        self.note_m(s);
        let n = self.n();
        self.w.push_back(s);
        while self.w.len() > n.saturating_add(1) {
            self.w.pop_front();
        }
    }

    /// Feed one input; returns the reference components:
    ///  SMA [mean] · WMA [wmean] · SD [variance] · MAD [mad] · MIN [min] · MAX [max] · BB [mean, variance]
    ///  EMA [ema] · TR [tr] · ATR [atr] · MACD [macd, signal, hist] · KC [average, atr] · CE [max high, min low, atr]
    ///  RSI [rsi] · FAST [k] · SLOW [d] · ROC [roc] · ER [er] · PPO [ppo, signal, hist] · CCI [cci] · MFI [mfi] · OBV [obv]
    pub fn push(&mut self, x: &In) -> RefOut {
        self.push_opt(x, true)
    }

    /// As `push`; with `evaluate == false` only the reference's own state (windows, carried
    /// recursions) is advanced and the O(n) window statistics are not computed (soak runs judge
    /// sampled steps only). The returned components are then meaningless.
    pub fn push_opt(&mut self, x: &In, evaluate: bool) -> RefOut {
        use Kind::*;
        self.t += 1;
        let t = self.t;
        let n = self.n();
        let kind = self.p.kind;
        // documented scalar series and magnitudes
        let reads = kind.reads();
        let (s, bar): (f64, Option<Bar>) = match x {
            In::S(v) => {
                self.note_m(*v);
                (*v, None)
            }
            In::B(b) => {
                if reads[1] {
                    self.note_m(b.h);
                }
                if reads[2] {
                    self.note_m(b.l);
                }
                if reads[3] {
                    self.note_m(b.c);
                }
                let s = match kind {
                    Min => b.l,
                    Max => b.h,
                    _ => b.c,
                };
                (s, Some(*b))
            }
        };
        let mut out = RefOut { n: 1, v: [Dd::ZERO; 3], c: [1.0; 3], degenerate: false, near_tie: false, exact_neutral: false, identical_window: false, m: self.m, scale: 1.0, t };
        // keep last n+1 of the scalar series
        self.w.push_back(s);
        while self.w.len() > n.saturating_add(1) {
            self.w.pop_front();
        }
        // high / low / tp windows for bar-reading kinds
        let (h, l, tp) = match bar {
            Some(b) => (b.h, b.l, (dd(b.h) + dd(b.l) + dd(b.c)) / dd(3.0)),
            None => (s, s, dd(s)),
        };
        if matches!(kind, Fast | Slow | Ce | Cci | Mfi) {
            self.wh.push_back(h);
            self.wl.push_back(l);
            self.wtp.push_back(tp);
            self.bars_valid.push_back(match bar {
                Some(b) => b.l <= b.c && b.c <= b.h,
                None => true,
            });
            while self.wh.len() > n {
                self.wh.pop_front();
                self.wl.pop_front();
                self.bars_valid.pop_front();
            }
            while self.wtp.len() > n.saturating_add(1) {
                self.wtp.pop_front();
            }
        }
        if !evaluate && matches!(kind, Sma | Wma | Sd | Mad | Min | Max | Bb | Cci) {
            return out;
        }
        match kind {
            Sma => out.v[0] = w_mean(self.window()),
            Wma => out.v[0] = w_wma(self.window()),
            Sd => out.v[0] = w_var(self.window()).1,
            Mad => out.v[0] = w_mad(self.window()).1,
            Min => out.v[0] = dd(w_min(self.window())),
            Max => out.v[0] = dd(w_max(self.window())),
            Bb => {
                let (m, v) = w_var(self.window());
                out.n = 2;
                out.v[0] = m;
                out.v[1] = v;
            }
            Ema => out.v[0] = self.e[0].push(dd(s)),
            Tr | Atr | Kc | Ce => {
                let tr = match (bar, self.prev) {
                    (Some(b), None) => dd(b.h) - dd(b.l),
                    (Some(b), Some(pc)) => {
                        let d1 = dd(b.h) - dd(b.l);
                        let d2 = (dd(b.h) - dd(pc)).abs();
                        let d3 = (dd(b.l) - dd(pc)).abs();
                        d1.max(d2).max(d3)
                    }
                    (None, None) => Dd::ZERO,
                    (None, Some(px)) => (dd(s) - dd(px)).abs(),
                };
                self.prev = Some(s);
                match kind {
                    Tr => out.v[0] = tr,
                    Atr => out.v[0] = self.e[0].push(tr),
                    Kc => {
                        let price = if bar.is_some() { tp } else { dd(s) };
                        out.n = 2;
                        out.v[0] = self.e[0].push(price);
                        out.v[1] = self.e[1].push(tr);
                    }
                    Ce => {
                        out.n = 3;
                        out.v[0] = dd(w_max(self.wh.iter()));
                        out.v[1] = dd(w_min(self.wl.iter()));
                        out.v[2] = self.e[0].push(tr);
                    }
                    _ => unreachable!(),
                }
            }
            Macd => {
                let f = self.e[0].push(dd(s));
                let sl = self.e[1].push(dd(s));
                let macd = f - sl;
                let sig = self.e[2].push(macd);
                out.n = 3;
                out.v = [macd, sig, macd - sig];
            }
            Rsi => {
                let (up, down) = match self.prev {
                    None => (Dd::ONE / dd(10.0), Dd::ONE / dd(10.0)),
                    Some(px) => {
                        if s > px {
                            (dd(s) - dd(px), Dd::ZERO)
                        } else {
                            (Dd::ZERO, dd(px) - dd(s))
                        }
                    }
                };
                self.prev = Some(s);
                let u = self.e[0].push(up);
                let d = self.e[1].push(down);
                let den = u + d;
                out.scale = 100.0;
                if den.is_zero() {
                    out.degenerate = true;
                    out.v[0] = dd(50.0);
                    out.c[0] = f64::INFINITY;
                } else {
                    out.v[0] = dd(100.0) * u / den;
                    out.c[0] = self.m.max(0.1) / den.to_f64();
                }
            }
            Fast | Slow => {
                let (hi, lo) = (w_max(self.wh.iter()), w_min(self.wl.iter()));
                let (k, ck, degen) = if hi == lo {
                    (dd(50.0), 1.0, true)
                } else {
                    let k = dd(100.0) * (dd(s) - dd(lo)) / (dd(hi) - dd(lo));
                    (k, s.abs().max(hi.abs()).max(lo.abs()) / (hi - lo), false)
                };
                out.scale = 100.0;
                if kind == Fast {
                    out.v[0] = k;
                    out.c[0] = ck;
                    out.degenerate = degen;
                } else {
                    out.v[0] = self.e[0].push(k);
                    out.c[0] = self.eb[0].push(ck);
                    out.degenerate = degen;
                }
            }
            Roc => {
                let prevv = self.w[0]; // w holds at most n+1 values: front is x_{t-n}, or x_1 while warming up
                out.scale = 100.0;
                if prevv == 0.0 {
                    out.degenerate = true;
                    out.c[0] = f64::INFINITY;
                } else {
                    out.v[0] = dd(100.0) * (dd(s) - dd(prevv)) / dd(prevv);
                    out.c[0] = s.abs().max(prevv.abs()) / prevv.abs();
                }
            }
            Er => {
                out.scale = 1.0;
                if t == 1 {
                    out.v[0] = Dd::ONE;
                } else {
                    let mut vol = Dd::ZERO;
                    let mut mx: f64 = 0.0;
                    let mut it = self.w.iter();
                    let first = *it.next().unwrap();
                    let mut p = first;
                    mx = mx.max(first.abs());
                    for &y in it {
                        vol = vol + (dd(y) - dd(p)).abs();
                        mx = mx.max(y.abs());
                        p = y;
                    }
                    if vol.is_zero() {
                        out.degenerate = true;
                        out.c[0] = f64::INFINITY;
                    } else {
                        out.v[0] = (dd(s) - dd(first)).abs() / vol;
                        out.c[0] = mx / vol.to_f64();
                    }
                }
            }
            Ppo => {
                let f = self.e[0].push(dd(s));
                let sl = self.e[1].push(dd(s));
                out.n = 3;
                out.scale = 100.0;
                if sl.is_zero() {
                    out.degenerate = true;
                    out.c = [f64::INFINITY; 3];
                    // poison carried state: nothing after this is judged
                    self.eb[0].push(f64::INFINITY);
                } else {
                    let ppo = dd(100.0) * (f - sl) / sl;
                    let c = self.m / sl.abs().to_f64();
                    let sig = self.e[2].push(ppo);
                    let cs = self.eb[0].push(c);
                    out.v = [ppo, sig, ppo - sig];
                    out.c = [c, cs, c.max(cs)];
                }
            }
            Cci => {
                let skip = self.wtp.len().saturating_sub(n);
                let mut mean = Dd::ZERO;
                let k = self.wtp.len() - skip;
                for x in self.wtp.iter().skip(skip) {
                    mean = mean + *x;
                }
                mean = mean / Dd::from_usize(k);
                let mut mad = Dd::ZERO;
                for x in self.wtp.iter().skip(skip) {
                    mad = mad + (*x - mean).abs();
                }
                mad = mad / Dd::from_usize(k);
                out.scale = 1.0 / 0.015;
                // a window of identical typical prices has MAD exactly 0; dd rounding of the mean
                // can leave ~1e-32·M, which we treat as zero
                let flat = self.wtp.iter().skip(skip).all(|x| x.cmp(&tp) == Ordering::Equal);
                if flat || mad.is_zero() {
                    out.degenerate = true;
                    out.v[0] = Dd::ZERO;
                    out.c[0] = 1.0;
                    let same = |it: &mut dyn Iterator<Item = &f64>| {
                        let first = it.next().copied();
                        let mut all = true;
                        for x in it {
                            all &= Some(*x) == first;
                        }
                        all
                    };
                    let cskip = self.w.len().saturating_sub(k);
                    out.identical_window = same(&mut self.wh.iter()) && same(&mut self.wl.iter()) && same(&mut self.w.iter().skip(cskip));
                    out.exact_neutral = out.identical_window
                        // ... or different bars whose sums high+low+close are all exact in f64 and equal
                        || (flat && self.wh.iter().zip(self.wl.iter()).zip(self.w.iter().skip(cskip)).all(|((h, l), c)| exact_sum3(*h, *l, *c)));
                } else {
                    out.v[0] = (tp - mean) / (dd(15.0) / dd(1000.0) * mad);
                    out.c[0] = self.m / mad.to_f64();
                }
            }
            Mfi => {
                let vol = bar.map(|b| b.v).unwrap_or(0.0);
                out.scale = 100.0;
                if t == 1 {
                    out.v[0] = dd(50.0);
                    self.prev_hlc = bar.map(|b| [b.h, b.l, b.c]);
                } else {
                    let ptp = self.wtp[self.wtp.len() - 2];
                    let raw = tp * dd(vol);
                    let sign: i8 = match tp.cmp(&ptp) {
                        Ordering::Greater => 1,
                        Ordering::Less => -1,
                        Ordering::Equal => 0,
                    };
                    let gap = (tp - ptp).abs().to_f64();
                    // f64 evaluation of (c+h+l)/3 is off by up to ~2 ulp per typical price, so a gap
                    // within 4ε·|tp| can be ordered either way by a correct implementation — unless the
                    // two bars carry identical prices, in which case the tie is exact in f64 as well
                    let same_prices = match (bar, self.prev_hlc) {
                        (Some(b), Some(q)) => [b.h, b.l, b.c] == q,
                        _ => false,
                    };
                    // ... or both bars' sums high+low+close are exact in f64 in every order of addition (prices on
                    // a dyadic grid): any evaluation of (high+low+close)/3 then divides the same exact number, so an
                    // exact tie of the typical prices is a tie in f64 too
                    let exact_tie = sign == 0 && match (bar, self.prev_hlc) {
                        (Some(b), Some(q)) => exact_sum3(b.h, b.l, b.c) && exact_sum3(q[0], q[1], q[2]),
                        _ => false,
                    };
                    let near = !same_prices && !exact_tie && gap <= 4.0 * EPS * tp.abs().to_f64().max(ptp.abs().to_f64());
                    self.flows.push_back((sign, raw));
                    self.ties.push_back(near);
                    while self.flows.len() > n {
                        self.flows.pop_front();
                        self.ties.pop_front();
                    }
                    self.prev_hlc = bar.map(|b| [b.h, b.l, b.c]);
                    let rf = raw.abs().to_f64();
                    if sign != 0 && rf > self.max_flow {
                        self.max_flow = rf;
                    }
                    if !evaluate {
                        return out;
                    }
                    let mut pmf = Dd::ZERO;
                    let mut nmf = Dd::ZERO;
                    for (sg, f) in &self.flows {
                        if *sg > 0 {
                            pmf = pmf + *f;
                        } else if *sg < 0 {
                            nmf = nmf + *f;
                        }
                    }
                    out.near_tie = self.ties.iter().any(|b| *b);
                    let den = pmf + nmf;
                    if den.is_zero() || den.hi <= 0.0 {
                        out.degenerate = true;
                        out.v[0] = dd(50.0);
                        out.c[0] = f64::INFINITY;
                    } else {
                        out.v[0] = dd(100.0) * pmf / den;
                        out.c[0] = self.max_flow / den.to_f64();
                    }
                }
            }
            Obv => {
                let vol = bar.map(|b| b.v).unwrap_or(0.0);
                let pc = self.prev.unwrap_or(0.0);
                if s > pc {
                    self.obv = self.obv + dd(vol);
                } else if s < pc {
                    self.obv = self.obv - dd(vol);
                }
                self.prev = Some(s);
                self.obv_scale = self.obv_scale.max(self.obv.abs().to_f64()).max(vol.abs());
                out.v[0] = self.obv;
                out.scale = self.obv_scale;
            }
        }
        out.m = self.m;
        out
    }

    /// all n (n+1 for ROC/ER/MFI) prices the indicator reads in its current window are equal
    pub fn window_flat(&self) -> bool {
        use Kind::*;
        let n = self.n();
        match self.p.kind {
            Roc | Er => {
                // need the n+1 values to exist only once past warm-up; during warm-up the statement
                // compares against the first price, so all values so far must be equal
                let f = self.w[self.w.len() - 1];
                self.w.iter().all(|x| *x == f)
            }
            Fast | Slow | Ce => {
                let f = self.wh[self.wh.len() - 1];
                self.wh.iter().all(|x| *x == f) && self.wl.iter().all(|x| *x == f) && self.window().all(|x| *x == f)
            }
            Cci => {
                let skip = self.wtp.len().saturating_sub(n);
                let f = self.wtp[self.wtp.len() - 1];
                self.wtp.iter().skip(skip).all(|x| x.cmp(&f) == Ordering::Equal)
            }
            Mfi => {
                let f = self.wtp[self.wtp.len() - 1];
                self.wtp.iter().all(|x| x.cmp(&f) == Ordering::Equal)
            }
            _ => {
                let f = self.w[self.w.len() - 1];
                self.window().all(|x| *x == f)
            }
        }
    }
}
