use serde_json::json;
use std::sync::atomic::Ordering;
use std::time::Instant;
use tamon::common::{Ctx, Tier};
use tamon::inst::{install_quiet_panic_hook, TOTAL_CALLS, TOTAL_INSTANCES, TOTAL_PANICS};
use tamon::props;

#[global_allocator]
static GLOBAL: tamon::alloc::Counting = tamon::alloc::Counting;

fn usage() -> ! {
    eprintln!("usage: mon run <C01..C19> [--tier quick|thorough] [--seed N] [--threads N] [--repo DIR] [--only a,b] [--skip a,b] --out FILE\n       mon replay <file>");
    std::process::exit(2);
}

fn main() {
    let args: Vec<String> = std::env::args().collect();
    if args.len() < 2 {
        usage();
    }
    install_quiet_panic_hook();
    match args[1].as_str() {
        "run" => {
            let prop = args[2].clone();
            let mut tier = Tier::Quick;
            let mut seed: u64 = 1;
            let mut threads = std::thread::available_parallelism().map(|n| n.get()).unwrap_or(4);
            let mut repo = "/repo".to_string();
            let mut out = None;
            let mut only = None;
            let mut skip = None;
            let mut traces_out: Option<String> = None;
            let mut i = 3;
            while i < args.len() {
                let a = args[i].as_str();
                let v = args.get(i + 1).cloned();
                match a {
                    "--tier" => tier = if v.as_deref() == Some("thorough") { Tier::Thorough } else { Tier::Quick },
                    "--seed" => seed = v.and_then(|s| s.parse().ok()).unwrap_or(1),
                    "--threads" => threads = v.and_then(|s| s.parse().ok()).unwrap_or(threads),
                    "--repo" => repo = v.unwrap_or(repo),
                    "--out" => out = v,
                    "--only" => only = v,
                    "--skip" => skip = v,
                    "--traces" => traces_out = v,
                    _ => usage(),
                }
                i += 2;
            }
            let ctx = Ctx { tier, seed, threads, repo, only, skip };
            let start = Instant::now();
            let (rep, rule, explanation, exhaustive) = match props::run(&prop, &ctx) {
                Some(x) => x,
                None => {
                    eprintln!("unknown property {}", prop);
                    std::process::exit(2);
                }
            };
            let wall = start.elapsed().as_secs_f64();
            if let Some(tf) = &traces_out {
                let mut txt = String::new();
                for t in &rep.traces {
                    txt.push_str(&serde_json::to_string(t).unwrap());
                    txt.push('\n');
                }
                std::fs::write(tf, txt).expect("write --traces");
            }
            let doc = json!({
                "property": prop,
                "tier": if tier == Tier::Quick { "quick" } else { "thorough" },
                "seed": seed,
                "threads": threads,
                "rule": rule,
                "explanation": explanation,
                "exhaustive_subspace": exhaustive,
                "wall_s": wall,
                "client_calls_observed": TOTAL_CALLS.load(Ordering::Relaxed),
                "instances_constructed": TOTAL_INSTANCES.load(Ordering::Relaxed),
                "panics_observed": TOTAL_PANICS.load(Ordering::Relaxed),
                "report": rep.to_json(),
            });
            let text = serde_json::to_string_pretty(&doc).unwrap();
            match out {
                Some(f) => std::fs::write(&f, text).expect("write --out"),
                None => println!("{}", text),
            }
        }
        "digest" => {
            // whole-workload output digest for cross-process determinism (C05)
            let seed: u64 = args.get(2).and_then(|s| s.parse().ok()).unwrap_or(1);
            let threads: usize = args.get(3).and_then(|s| s.parse().ok()).unwrap_or(1);
            if args.get(4).map(|s| s == "decoys").unwrap_or(false) {
                tamon::props::c05::run_decoys(seed);
            }
            println!("{:#018x}", tamon::props::c05::workload_digest(seed, threads));
        }
        "replay" => {
            let code = tamon::replay::replay_file(&args[2]);
            std::process::exit(code);
        }
        _ => usage(),
    }
}
