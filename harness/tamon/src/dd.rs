//! Double-double arithmetic (≈106-bit significand) for reference models.
//! Error of each op ≲ 4·2⁻¹⁰⁶ relative; fifteen orders below the tightest tolerance we compare at.
//! Inputs are finite f64 of magnitude ≤ ~1e150 (no overflow handling).

use std::cmp::Ordering;
use std::ops::{Add, Div, Mul, Neg, Sub};

#[derive(Clone, Copy, Debug, PartialEq)]
pub struct Dd {
    pub hi: f64,
    pub lo: f64,
}

#[inline]
fn two_sum(a: f64, b: f64) -> (f64, f64) {
    let s = a + b;
    let bb = s - a;
    let e = (a - (s - bb)) + (b - bb);
    (s, e)
}

#[inline]
fn quick_two_sum(a: f64, b: f64) -> (f64, f64) {
    let s = a + b;
    let e = b - (s - a);
    (s, e)
}

#[inline]
fn two_prod(a: f64, b: f64) -> (f64, f64) {
    let p = a * b;
    let e = a.mul_add(b, -p);
    (p, e)
}

impl Dd {
    pub const ZERO: Dd = Dd { hi: 0.0, lo: 0.0 };
    pub const ONE: Dd = Dd { hi: 1.0, lo: 0.0 };

    #[inline]
    pub fn new(x: f64) -> Dd {
        Dd { hi: x, lo: 0.0 }
    }
    #[inline]
    pub fn from_usize(n: usize) -> Dd {
        // exact for n < 2^53, which is all we ever use as a *count*
        let hi = n as f64;
        let lo = if n > (1usize << 53) {
            // remaining part (only for huge period values in C11-style probes)
            let back = hi as u128;
            (n as i128 - back as i128) as f64
        } else {
            0.0
        };
        Dd { hi, lo }
    }
    #[inline]
    pub fn to_f64(self) -> f64 {
        self.hi + self.lo
    }
    #[inline]
    pub fn abs(self) -> Dd {
        if self.hi < 0.0 || (self.hi == 0.0 && self.lo < 0.0) {
            -self
        } else {
            self
        }
    }
    #[inline]
    pub fn is_zero(self) -> bool {
        self.hi == 0.0 && self.lo == 0.0
    }
    #[inline]
    pub fn is_finite(self) -> bool {
        self.hi.is_finite() && self.lo.is_finite()
    }
    #[inline]
    pub fn max(self, o: Dd) -> Dd {
        if self.cmp(&o) == Ordering::Less {
            o
        } else {
            self
        }
    }
    #[inline]
    pub fn min(self, o: Dd) -> Dd {
        if self.cmp(&o) == Ordering::Greater {
            o
        } else {
            self
        }
    }
    #[inline]
    pub fn cmp(&self, o: &Dd) -> Ordering {
        match self.hi.partial_cmp(&o.hi) {
            Some(Ordering::Equal) => self.lo.partial_cmp(&o.lo).unwrap_or(Ordering::Equal),
            Some(c) => c,
            None => Ordering::Equal,
        }
    }
    #[inline]
    pub fn sqr(self) -> Dd {
        self * self
    }
    /// Square root via one Newton step on the f64 estimate (only used for reporting / slack terms).
    pub fn sqrt(self) -> Dd {
        if self.hi <= 0.0 {
            return Dd::ZERO;
        }
        let x = self.hi.sqrt();
        let xx = Dd::new(x);
        // x' = x + (a - x²)/(2x)
        let r = self - xx.sqr();
        xx + r / Dd::new(2.0 * x)
    }
}

impl Neg for Dd {
    type Output = Dd;
    #[inline]
    fn neg(self) -> Dd {
        Dd { hi: -self.hi, lo: -self.lo }
    }
}

impl Add for Dd {
    type Output = Dd;
    #[inline]
    fn add(self, o: Dd) -> Dd {
        let (s1, s2) = two_sum(self.hi, o.hi);
        let (t1, t2) = two_sum(self.lo, o.lo);
        let s2 = s2 + t1;
        let (s1, s2) = quick_two_sum(s1, s2);
        let s2 = s2 + t2;
        let (hi, lo) = quick_two_sum(s1, s2);
        Dd { hi, lo }
    }
}

impl Sub for Dd {
    type Output = Dd;
    #[inline]
    fn sub(self, o: Dd) -> Dd {
        self + (-o)
    }
}

impl Mul for Dd {
    type Output = Dd;
    #[inline]
    fn mul(self, o: Dd) -> Dd {
        let (p1, p2) = two_prod(self.hi, o.hi);
        let p2 = p2 + (self.hi * o.lo + self.lo * o.hi);
        let (hi, lo) = quick_two_sum(p1, p2);
        Dd { hi, lo }
    }
}

impl Div for Dd {
    type Output = Dd;
    #[inline]
    fn div(self, o: Dd) -> Dd {
        let q1 = self.hi / o.hi;
        let r = self - o * Dd::new(q1);
        let q2 = r.hi / o.hi;
        let r = r - o * Dd::new(q2);
        let q3 = r.hi / o.hi;
        let (q1, q2) = quick_two_sum(q1, q2);
        Dd { hi: q1, lo: q2 } + Dd::new(q3)
    }
}

impl From<f64> for Dd {
    #[inline]
    fn from(x: f64) -> Dd {
        Dd::new(x)
    }
}

#[inline]
pub fn dd(x: f64) -> Dd {
    Dd::new(x)
}

/// Sum of f64 values in dd.
pub fn dd_sum<'a, I: IntoIterator<Item = &'a f64>>(it: I) -> Dd {
    let mut s = Dd::ZERO;
    for &x in it {
        s = s + Dd::new(x);
    }
    s
}

#[cfg(test)]
mod tests {
    use super::*;
    #[test]
    fn basic() {
        let a = dd(1.0) / dd(3.0);
        let b = a * dd(3.0);
        assert!((b - Dd::ONE).abs().to_f64() < 1e-30);
        let s = dd(1e16) + dd(1.0) - dd(1e16);
        assert_eq!(s.to_f64(), 1.0);
        let r = dd(2.0).sqrt();
        assert!((r.sqr() - dd(2.0)).abs().to_f64() < 1e-30);
    }
}
