//! Uniform client-boundary wrapper over the 22 indicators of `ta`.
//! Every call goes through `Inst`, is wrapped in `catch_unwind`, counted, and (optionally) recorded
//! in an event trace: the *call* is recorded before invocation and the *result* after return.

use serde_json::{json, Value};
use std::cell::RefCell;
use std::panic::{catch_unwind, AssertUnwindSafe};
use std::sync::atomic::{AtomicU64, Ordering};
use ta::indicators::*;
use ta::{Close, DataItem, High, Low, Next, Open, Period, Reset, Volume};

// ---------------------------------------------------------------------------------------------
// kinds & params

#[derive(Clone, Copy, Debug, PartialEq, Eq, Hash, PartialOrd, Ord)]
pub enum Kind {
    Ema,
    Sma,
    Wma,
    Sd,
    Mad,
    Min,
    Max,
    Bb,
    Tr,
    Atr,
    Macd,
    Kc,
    Ce,
    Rsi,
    Fast,
    Slow,
    Roc,
    Er,
    Ppo,
    Cci,
    Mfi,
    Obv,
}
use Kind::*;

pub const ALL_KINDS: [Kind; 22] = [
    Ema, Sma, Wma, Sd, Mad, Min, Max, Bb, Tr, Atr, Macd, Kc, Ce, Rsi, Fast, Slow, Roc, Er, Ppo, Cci, Mfi, Obv,
];

impl Kind {
    pub fn name(self) -> &'static str {
        match self {
            Ema => "EMA",
            Sma => "SMA",
            Wma => "WMA",
            Sd => "SD",
            Mad => "MAD",
            Min => "MIN",
            Max => "MAX",
            Bb => "BB",
            Tr => "TR",
            Atr => "ATR",
            Macd => "MACD",
            Kc => "KC",
            Ce => "CE",
            Rsi => "RSI",
            Fast => "FAST",
            Slow => "SLOW",
            Roc => "ROC",
            Er => "ER",
            Ppo => "PPO",
            Cci => "CCI",
            Mfi => "MFI",
            Obv => "OBV",
        }
    }
    pub fn from_name(s: &str) -> Option<Kind> {
        ALL_KINDS.iter().copied().find(|k| k.name() == s)
    }
    /// the NAME used by the documented Display format
    pub fn display_name(self) -> &'static str {
        match self {
            Tr => "TRUE_RANGE",
            Fast => "FAST_STOCH",
            Slow => "SLOW_STOCH",
            k => k.name(),
        }
    }
    pub fn n_periods(self) -> usize {
        match self {
            Tr | Obv => 0,
            Slow => 2,
            Macd | Ppo => 3,
            _ => 1,
        }
    }
    pub fn has_multiplier(self) -> bool {
        matches!(self, Bb | Kc | Ce)
    }
    /// implements Next<f64>
    pub fn has_scalar(self) -> bool {
        !matches!(self, Cci | Ce | Mfi | Obv)
    }
    /// implements Period
    pub fn has_period(self) -> bool {
        !matches!(self, Tr | Obv | Slow | Macd | Ppo)
    }
    /// allocates a window of `period` f64s (so huge periods cannot be constructed)
    pub fn windowed(self) -> bool {
        matches!(self, Sma | Wma | Sd | Mad | Min | Max | Bb | Ce | Fast | Slow | Roc | Er | Cci | Mfi)
    }
    pub fn n_out(self) -> usize {
        match self {
            Bb | Kc | Macd | Ppo => 3,
            Ce => 2,
            _ => 1,
        }
    }
    pub fn out_names(self) -> &'static [&'static str] {
        match self {
            Bb | Kc => &["average", "upper", "lower"],
            Macd => &["macd", "signal", "histogram"],
            Ppo => &["ppo", "signal", "histogram"],
            Ce => &["long", "short"],
            _ => &["value"],
        }
    }
    /// reads volume
    pub fn reads_volume(self) -> bool {
        matches!(self, Mfi | Obv)
    }
    /// fields of a bar the indicator is documented to read: (open, high, low, close, volume)
    pub fn reads(self) -> [bool; 5] {
        match self {
            Min => [false, false, true, false, false],
            Max => [false, true, false, false, false],
            Fast | Slow | Tr | Atr | Kc | Ce | Cci => [false, true, true, true, false],
            Mfi => [false, true, true, true, true],
            Obv => [false, false, false, true, true],
            _ => [false, false, false, true, false],
        }
    }
    pub fn default_params(self) -> Params {
        let (p, k): ([usize; 3], f64) = match self {
            Ema | Sma | Wma | Sd | Mad | Roc => ([9, 0, 0], 0.0),
            Rsi | Atr | Er | Mfi | Min | Max | Fast => ([14, 0, 0], 0.0),
            Slow => ([14, 3, 0], 0.0),
            Macd | Ppo => ([12, 26, 9], 0.0),
            Cci => ([20, 0, 0], 0.0),
            Bb => ([9, 0, 0], 2.0),
            Kc => ([10, 0, 0], 2.0),
            Ce => ([22, 0, 0], 3.0),
            Tr | Obv => ([0, 0, 0], 0.0),
        };
        Params { kind: self, p, k }
    }
}

#[derive(Clone, Copy, Debug, PartialEq)]
pub struct Params {
    pub kind: Kind,
    pub p: [usize; 3],
    pub k: f64,
}

impl Params {
    pub fn new1(kind: Kind, n: usize) -> Params {
        let mut p = kind.default_params();
        p.p = [0; 3];
        for i in 0..kind.n_periods() {
            p.p[i] = n;
        }
        p
    }
    /// the documented default configuration of this kind (multiplier compared bitwise)
    pub fn is_default(&self) -> bool {
        let d = self.kind.default_params();
        self.p == d.p && self.k.to_bits() == d.k.to_bits() && !matches!(self.kind, Kind::Tr | Kind::Obv)
    }
    /// parameters for the receiver of a `clone_from`: the same periods, smaller ones or larger ones, in
    /// turn (mode % 3 = 0, 1, 2)
    pub fn receiver_variant(&self, mode: usize) -> Params {
        let mut rp = *self;
        if mode % 3 != 0 && self.kind.n_periods() > 0 {
            for q in rp.p.iter_mut().take(self.kind.n_periods()) {
                let c = (*q).min(1 << 16);
                *q = if mode % 3 == 1 { c / 2 + 1 } else { 2 * c + 3 };
            }
        }
        // ... and with another multiplier (a copy must take the source's, not keep its own)
        if mode % 3 != 0 && self.kind.has_multiplier() {
            rp.k = if mode % 3 == 1 { self.k * 0.5 + 1.5 } else { -self.k - 0.25 };
        }
        rp
    }
    pub fn with_k(mut self, k: f64) -> Params {
        self.k = k;
        self
    }
    pub fn periods(&self) -> &[usize] {
        &self.p[..self.kind.n_periods()]
    }
    pub fn sum_periods(&self) -> usize {
        self.periods().iter().fold(0usize, |a, b| a.saturating_add(*b))
    }
    /// the main window length (first period) — 1 for parameterless kinds
    pub fn n(&self) -> usize {
        if self.kind.n_periods() == 0 {
            1
        } else {
            self.p[0]
        }
    }
    pub fn max_period(&self) -> usize {
        self.periods().iter().copied().max().unwrap_or(1)
    }
    /// Display string the documentation promises: NAME(params)
    pub fn expected_display(&self) -> String {
        match self.kind {
            Tr => "TRUE_RANGE()".to_string(),
            Obv => "OBV".to_string(),
            k if k.has_multiplier() => format!("{}({}, {})", k.display_name(), self.p[0], self.k),
            k => {
                let ps: Vec<String> = self.periods().iter().map(|p| p.to_string()).collect();
                format!("{}({})", k.display_name(), ps.join(", "))
            }
        }
    }
    pub fn to_json(&self) -> Value {
        json!({"kind": self.kind.name(), "periods": self.periods().iter().map(|p| p.to_string()).collect::<Vec<_>>(),
               "multiplier": if self.kind.has_multiplier() { Value::String(hexf(self.k)) } else { Value::Null }})
    }
    pub fn from_json(v: &Value) -> Option<Params> {
        let kind = Kind::from_name(v.get("kind")?.as_str()?)?;
        let mut p = [0usize; 3];
        for (i, x) in v.get("periods")?.as_array()?.iter().enumerate() {
            if i < 3 {
                p[i] = x.as_str()?.parse().ok()?;
            }
        }
        let k = match v.get("multiplier") {
            Some(Value::String(s)) => parse_hexf(s)?,
            _ => 0.0,
        };
        Some(Params { kind, p, k })
    }
    pub fn label(&self) -> String {
        if self.kind.has_multiplier() {
            format!("{}({},{})", self.kind.name(), self.p[0], self.k)
        } else {
            let ps: Vec<String> = self.periods().iter().map(|p| p.to_string()).collect();
            format!("{}({})", self.kind.name(), ps.join(","))
        }
    }
}

// ---------------------------------------------------------------------------------------------
// float <-> exact text

/// exact, round-trippable text for an f64: the bit pattern plus a readable value
pub fn hexf(x: f64) -> String {
    format!("{:#018x}|{:e}", x.to_bits(), x)
}
pub fn parse_hexf(s: &str) -> Option<f64> {
    let bits = s.split('|').next()?;
    let bits = bits.strip_prefix("0x")?;
    u64::from_str_radix(bits, 16).ok().map(f64::from_bits)
}

// ---------------------------------------------------------------------------------------------
// bars

#[derive(Clone, Copy, Debug, PartialEq)]
pub struct Bar {
    pub o: f64,
    pub h: f64,
    pub l: f64,
    pub c: f64,
    pub v: f64,
}
impl Bar {
    pub fn flat(x: f64, v: f64) -> Bar {
        Bar { o: x, h: x, l: x, c: x, v }
    }
    pub fn fields(&self) -> [f64; 5] {
        [self.o, self.h, self.l, self.c, self.v]
    }
    pub fn from_fields(f: [f64; 5]) -> Bar {
        Bar { o: f[0], h: f[1], l: f[2], c: f[3], v: f[4] }
    }
    pub fn tp_f64(&self) -> f64 {
        (self.c + self.h + self.l) / 3.0
    }
    pub fn is_valid(&self) -> bool {
        self.l <= self.o && self.l <= self.c && self.l <= self.h && self.h >= self.o && self.h >= self.c && self.v >= 0.0
    }
    pub fn scale_prices(&self, c: f64) -> Bar {
        Bar { o: self.o * c, h: self.h * c, l: self.l * c, c: self.c * c, v: self.v }
    }
    pub fn shift_prices(&self, d: f64) -> Bar {
        Bar { o: self.o + d, h: self.h + d, l: self.l + d, c: self.c + d, v: self.v }
    }
    pub fn to_item(&self) -> Option<DataItem> {
        DataItem::builder().open(self.o).high(self.h).low(self.l).close(self.c).volume(self.v).build().ok()
    }
    pub fn to_json(&self) -> Value {
        json!([hexf(self.o), hexf(self.h), hexf(self.l), hexf(self.c), hexf(self.v)])
    }
    pub fn from_json(v: &Value) -> Option<Bar> {
        let a = v.as_array()?;
        Some(Bar {
            o: parse_hexf(a.first()?.as_str()?)?,
            h: parse_hexf(a.get(1)?.as_str()?)?,
            l: parse_hexf(a.get(2)?.as_str()?)?,
            c: parse_hexf(a.get(3)?.as_str()?)?,
            v: parse_hexf(a.get(4)?.as_str()?)?,
        })
    }
}
impl Open for Bar {
    fn open(&self) -> f64 {
        self.o
    }
}
impl High for Bar {
    fn high(&self) -> f64 {
        self.h
    }
}
impl Low for Bar {
    fn low(&self) -> f64 {
        self.l
    }
}
impl Close for Bar {
    fn close(&self) -> f64 {
        self.c
    }
}
impl Volume for Bar {
    fn volume(&self) -> f64 {
        self.v
    }
}

/// A second user type with a different memory layout (bit patterns, reversed order, padding, and a
/// decoy field) carrying the same five numbers.
#[derive(Clone, Debug)]
pub struct Bar2 {
    decoy: f64,
    vol: u64,
    pad: [u8; 3],
    prices_rev: [u64; 4], // close, low, high, open
    name: String,
}
impl Bar2 {
    pub fn from_bar(b: &Bar) -> Bar2 {
        Bar2 {
            decoy: -12345.678,
            vol: b.v.to_bits(),
            pad: [1, 2, 3],
            prices_rev: [b.c.to_bits(), b.l.to_bits(), b.h.to_bits(), b.o.to_bits()],
            name: String::from("bar2"),
        }
    }
}
impl Open for Bar2 {
    fn open(&self) -> f64 {
        f64::from_bits(self.prices_rev[3])
    }
}
impl High for Bar2 {
    fn high(&self) -> f64 {
        f64::from_bits(self.prices_rev[2])
    }
}
impl Low for Bar2 {
    fn low(&self) -> f64 {
        f64::from_bits(self.prices_rev[1])
    }
}
impl Close for Bar2 {
    fn close(&self) -> f64 {
        let _ = (self.decoy, self.pad, &self.name);
        f64::from_bits(self.prices_rev[0])
    }
}
impl Volume for Bar2 {
    fn volume(&self) -> f64 {
        f64::from_bits(self.vol)
    }
}

// ---------------------------------------------------------------------------------------------
// outputs

#[derive(Clone, Copy, Debug, PartialEq)]
pub struct Out {
    pub n: usize,
    pub v: [f64; 3],
}
impl Out {
    pub fn one(x: f64) -> Out {
        Out { n: 1, v: [x, 0.0, 0.0] }
    }
    pub fn two(a: f64, b: f64) -> Out {
        Out { n: 2, v: [a, b, 0.0] }
    }
    pub fn three(a: f64, b: f64, c: f64) -> Out {
        Out { n: 3, v: [a, b, c] }
    }
    pub fn vals(&self) -> &[f64] {
        &self.v[..self.n]
    }
    pub fn bits_eq(&self, o: &Out) -> bool {
        self.n == o.n && self.vals().iter().zip(o.vals()).all(|(a, b)| a.to_bits() == b.to_bits())
    }
    /// numeric equality, NaN == NaN
    pub fn num_eq(&self, o: &Out) -> bool {
        self.n == o.n && self.vals().iter().zip(o.vals()).all(|(a, b)| a == b || (a.is_nan() && b.is_nan()))
    }
    pub fn all_finite(&self) -> bool {
        self.vals().iter().all(|x| x.is_finite())
    }
    pub fn to_json(&self) -> Value {
        Value::Array(self.vals().iter().map(|x| Value::String(hexf(*x))).collect())
    }
}

/// |a-b| <= rel * max(|a|,|b|), both-NaN and same-signed inf count as equal
pub fn rel_close(a: f64, b: f64, rel: f64) -> bool {
    if a.is_nan() || b.is_nan() {
        return a.is_nan() && b.is_nan();
    }
    if a == b {
        return true;
    }
    if a.is_infinite() || b.is_infinite() {
        return false;
    }
    (a - b).abs() <= rel * a.abs().max(b.abs())
}
pub fn out_rel_close(a: &Out, b: &Out, rel: f64) -> bool {
    a.n == b.n && a.vals().iter().zip(b.vals()).all(|(x, y)| rel_close(*x, *y, rel))
}

// ---------------------------------------------------------------------------------------------
// the object-safe trait over concrete indicator types

pub trait Ind: Send + Sync {
    fn next_f64(&mut self, x: f64) -> Option<Out>;
    fn next_bar(&mut self, b: &Bar) -> Out;
    fn next_bar2(&mut self, b: &Bar2) -> Out;
    fn next_item(&mut self, b: &DataItem) -> Out;
    fn reset(&mut self);
    fn clone_box(&self) -> Box<dyn Ind>;
    fn as_any(&self) -> &dyn std::any::Any;
    /// `Clone::clone_from(self, src)`; false when `src` is not the same concrete type
    fn assign_from(&mut self, src: &dyn Ind) -> bool;
    fn display(&self) -> String;
    fn debug(&self) -> String;
    fn period(&self) -> Option<usize>;
    fn multiplier(&self) -> Option<f64>;
    fn ser(&self) -> Result<Vec<u8>, String>;
    fn ser_size(&self) -> Result<u64, String>;
    fn de(&self, bytes: &[u8]) -> Result<Box<dyn Ind>, String>;
    /// `Deserialize::deserialize_in_place` into this (used) instance
    fn de_in_place(&mut self, bytes: &[u8]) -> Result<(), String>;
    fn ser_json(&self) -> Result<String, String>;
    fn de_json(&self, s: &str) -> Result<Box<dyn Ind>, String>;
}

macro_rules! impl_ind {
    ($ty:ty, scalar: $scalar:tt, period: $period:tt, mult: $mult:tt, out: |$o:ident| $conv:expr) => {
        impl Ind for $ty {
            fn next_f64(&mut self, _x: f64) -> Option<Out> {
                impl_ind!(@scalar $scalar, self, _x, $o, $conv)
            }
            fn next_bar(&mut self, b: &Bar) -> Out {
                let $o = Next::next(self, b);
                $conv
            }
            fn next_bar2(&mut self, b: &Bar2) -> Out {
                let $o = Next::next(self, b);
                $conv
            }
            fn next_item(&mut self, b: &DataItem) -> Out {
                let $o = Next::next(self, b);
                $conv
            }
            fn reset(&mut self) {
                Reset::reset(self)
            }
            fn clone_box(&self) -> Box<dyn Ind> {
                Box::new(self.clone())
            }
            fn as_any(&self) -> &dyn std::any::Any {
                self
            }
            fn assign_from(&mut self, src: &dyn Ind) -> bool {
                match src.as_any().downcast_ref::<$ty>() {
                    Some(s) => {
                        Clone::clone_from(self, s);
                        true
                    }
                    None => false,
                }
            }
            fn display(&self) -> String {
                // Display / Debug are also called the way column layouts and loggers call them: with width,
                // fill, alignment and precision flags. The result of the plain form is what gets compared.
                // (under Miri, where every formatted byte costs microseconds, two of the flagged forms)
                let _ = (format!("{:>24}", self), format!("{:16.16}", self));
                if !cfg!(miri) {
                    let _ = (format!("{:<4}", self), format!("{:^9.3}", self), format!("{:.40}", self), format!("{:*^30}", self), format!("{:.0}", self));
                }
                format!("{}", self)
            }
            fn debug(&self) -> String {
                if !cfg!(miri) {
                    let _ = (format!("{:#?}", self), format!("{:40.2?}", self), format!("{:<1?}", self));
                }
                format!("{:?}", self)
            }
            fn period(&self) -> Option<usize> {
                impl_ind!(@period $period, self)
            }
            fn multiplier(&self) -> Option<f64> {
                impl_ind!(@mult $mult, self)
            }
            fn ser(&self) -> Result<Vec<u8>, String> {
                // a checkpoint that fails half-way (the writer runs out of room) must leave nothing behind
                // that shows in the next one: first into a 3-byte buffer, then in a single pass into a Vec
                let mut tiny = [0u8; 3];
                let _ = bincode::serialize_into(&mut tiny[..], self);
                let mut v = Vec::new();
                bincode::serialize_into(&mut v, self).map_err(|e| e.to_string())?;
                Ok(v)
            }
            fn ser_size(&self) -> Result<u64, String> {
                bincode::serialized_size(self).map_err(|e| e.to_string())
            }
            fn de(&self, bytes: &[u8]) -> Result<Box<dyn Ind>, String> {
                let x: $ty = bincode::deserialize(bytes).map_err(|e| e.to_string())?;
                // the same bytes through a reader (file, socket): owned instead of borrowed input
                let y: $ty = bincode::deserialize_from(std::io::Cursor::new(bytes)).map_err(|e| format!("deserialize_from(reader): {}", e))?;
                let (bx, by) = (bincode::serialize(&x).map_err(|e| e.to_string())?, bincode::serialize(&y).map_err(|e| e.to_string())?);
                if bx != by {
                    return Err("deserialize(slice) and deserialize_from(reader) restore different states".to_string());
                }
                // the impls must not depend on one encoder configuration: the restored value goes through bincode's
                // variable-length integer / big-endian options once more and must come back as the same state
                if !cfg!(miri) {
                    use bincode::Options;
                    let o = bincode::options().with_varint_encoding().with_big_endian();
                    let vb = o.serialize(&x).map_err(|e| format!("serialize (varint, big-endian): {}", e))?;
                    let z: $ty = o.deserialize(&vb).map_err(|e| format!("deserialize of its own bytes (varint, big-endian options): {}", e))?;
                    let bz = bincode::serialize(&z).map_err(|e| e.to_string())?;
                    if bz != bx {
                        return Err("a round trip through bincode's varint / big-endian options restores a different state".to_string());
                    }
                }
                Ok(Box::new(x))
            }
            fn de_in_place(&mut self, bytes: &[u8]) -> Result<(), String> {
                use bincode::Options;
                let mut de = bincode::Deserializer::from_slice(bytes, bincode::options().with_fixint_encoding().allow_trailing_bytes());
                serde::Deserialize::deserialize_in_place(&mut de, self).map_err(|e| e.to_string())
            }
            fn ser_json(&self) -> Result<String, String> {
                serde_json::to_string(self).map_err(|e| e.to_string())
            }
            fn de_json(&self, s: &str) -> Result<Box<dyn Ind>, String> {
                let x: $ty = serde_json::from_str(s).map_err(|e| e.to_string())?;
                Ok(Box::new(x))
            }
        }
    };
    (@scalar yes, $s:ident, $x:ident, $o:ident, $conv:expr) => {{
        let $o = Next::next($s, $x);
        Some($conv)
    }};
    (@scalar no, $s:ident, $x:ident, $o:ident, $conv:expr) => {
        None
    };
    (@period yes, $s:ident) => {
        Some(Period::period($s))
    };
    (@period no, $s:ident) => {
        None
    };
    (@mult yes, $s:ident) => {
        Some($s.multiplier())
    };
    (@mult no, $s:ident) => {
        None
    };
}

impl_ind!(ExponentialMovingAverage, scalar: yes, period: yes, mult: no, out: |o| Out::one(o));
impl_ind!(SimpleMovingAverage, scalar: yes, period: yes, mult: no, out: |o| Out::one(o));
impl_ind!(WeightedMovingAverage, scalar: yes, period: yes, mult: no, out: |o| Out::one(o));
impl_ind!(StandardDeviation, scalar: yes, period: yes, mult: no, out: |o| Out::one(o));
impl_ind!(MeanAbsoluteDeviation, scalar: yes, period: yes, mult: no, out: |o| Out::one(o));
impl_ind!(Minimum, scalar: yes, period: yes, mult: no, out: |o| Out::one(o));
impl_ind!(Maximum, scalar: yes, period: yes, mult: no, out: |o| Out::one(o));
impl_ind!(BollingerBands, scalar: yes, period: yes, mult: yes, out: |o| Out::three(o.average, o.upper, o.lower));
impl_ind!(TrueRange, scalar: yes, period: no, mult: no, out: |o| Out::one(o));
impl_ind!(AverageTrueRange, scalar: yes, period: yes, mult: no, out: |o| Out::one(o));
/// The documented tuple conversions (MACD, PPO, CE) are exercised on every output: the tuple must
/// carry the same bits as the named fields (a mismatch panics inside the guarded call and is
/// reported as a failed client call).
fn same3(t: (f64, f64, f64), a: f64, b: f64, c: f64) -> Out {
    assert!(t.0.to_bits() == a.to_bits() && t.1.to_bits() == b.to_bits() && t.2.to_bits() == c.to_bits(), "tuple conversion differs from the output struct's fields");
    Out::three(a, b, c)
}
fn same2(t: (f64, f64), a: f64, b: f64) -> Out {
    assert!(t.0.to_bits() == a.to_bits() && t.1.to_bits() == b.to_bits(), "tuple conversion differs from the output struct's fields");
    Out::two(a, b)
}
impl_ind!(MovingAverageConvergenceDivergence, scalar: yes, period: no, mult: no, out: |o| same3(o.clone().into(), o.macd, o.signal, o.histogram));
impl_ind!(KeltnerChannel, scalar: yes, period: yes, mult: yes, out: |o| Out::three(o.average, o.upper, o.lower));
impl_ind!(ChandelierExit, scalar: no, period: yes, mult: yes, out: |o| same2(o.clone().into(), o.long, o.short));
impl_ind!(RelativeStrengthIndex, scalar: yes, period: yes, mult: no, out: |o| Out::one(o));
impl_ind!(FastStochastic, scalar: yes, period: yes, mult: no, out: |o| Out::one(o));
impl_ind!(SlowStochastic, scalar: yes, period: no, mult: no, out: |o| Out::one(o));
impl_ind!(RateOfChange, scalar: yes, period: yes, mult: no, out: |o| Out::one(o));
impl_ind!(EfficiencyRatio, scalar: yes, period: yes, mult: no, out: |o| Out::one(o));
impl_ind!(PercentagePriceOscillator, scalar: yes, period: no, mult: no, out: |o| same3(o.clone().into(), o.ppo, o.signal, o.histogram));
impl_ind!(CommodityChannelIndex, scalar: no, period: yes, mult: no, out: |o| Out::one(o));
impl_ind!(MoneyFlowIndex, scalar: no, period: yes, mult: no, out: |o| Out::one(o));
impl_ind!(OnBalanceVolume, scalar: no, period: no, mult: no, out: |o| Out::one(o));

/// raw constructor call (may panic; callers wrap)
pub fn construct_raw(p: &Params) -> Result<Box<dyn Ind>, ta::errors::TaError> {
    let a = p.p[0];
    Ok(match p.kind {
        Ema => Box::new(ExponentialMovingAverage::new(a)?),
        Sma => Box::new(SimpleMovingAverage::new(a)?),
        Wma => Box::new(WeightedMovingAverage::new(a)?),
        Sd => Box::new(StandardDeviation::new(a)?),
        Mad => Box::new(MeanAbsoluteDeviation::new(a)?),
        Min => Box::new(Minimum::new(a)?),
        Max => Box::new(Maximum::new(a)?),
        Bb => Box::new(BollingerBands::new(a, p.k)?),
        Tr => Box::new(TrueRange::new()),
        Atr => Box::new(AverageTrueRange::new(a)?),
        Macd => Box::new(MovingAverageConvergenceDivergence::new(a, p.p[1], p.p[2])?),
        Kc => Box::new(KeltnerChannel::new(a, p.k)?),
        Ce => Box::new(ChandelierExit::new(a, p.k)?),
        Rsi => Box::new(RelativeStrengthIndex::new(a)?),
        Fast => Box::new(FastStochastic::new(a)?),
        Slow => Box::new(SlowStochastic::new(a, p.p[1])?),
        Roc => Box::new(RateOfChange::new(a)?),
        Er => Box::new(EfficiencyRatio::new(a)?),
        Ppo => Box::new(PercentagePriceOscillator::new(a, p.p[1], p.p[2])?),
        Cci => Box::new(CommodityChannelIndex::new(a)?),
        Mfi => Box::new(MoneyFlowIndex::new(a)?),
        Obv => Box::new(OnBalanceVolume::new()),
    })
}

pub fn construct_default_raw(kind: Kind) -> Box<dyn Ind> {
    match kind {
        Ema => Box::new(ExponentialMovingAverage::default()),
        Sma => Box::new(SimpleMovingAverage::default()),
        Wma => Box::new(WeightedMovingAverage::default()),
        Sd => Box::new(StandardDeviation::default()),
        Mad => Box::new(MeanAbsoluteDeviation::default()),
        Min => Box::new(Minimum::default()),
        Max => Box::new(Maximum::default()),
        Bb => Box::new(BollingerBands::default()),
        Tr => Box::new(TrueRange::default()),
        Atr => Box::new(AverageTrueRange::default()),
        Macd => Box::new(MovingAverageConvergenceDivergence::default()),
        Kc => Box::new(KeltnerChannel::default()),
        Ce => Box::new(ChandelierExit::default()),
        Rsi => Box::new(RelativeStrengthIndex::default()),
        Fast => Box::new(FastStochastic::default()),
        Slow => Box::new(SlowStochastic::default()),
        Roc => Box::new(RateOfChange::default()),
        Er => Box::new(EfficiencyRatio::default()),
        Ppo => Box::new(PercentagePriceOscillator::default()),
        Cci => Box::new(CommodityChannelIndex::default()),
        Mfi => Box::new(MoneyFlowIndex::default()),
        Obv => Box::new(OnBalanceVolume::default()),
    }
}

// ---------------------------------------------------------------------------------------------
// panic capture

thread_local! {
    static LAST_PANIC: RefCell<Option<String>> = const { RefCell::new(None) };
    static GUARD_DEPTH: std::cell::Cell<u32> = const { std::cell::Cell::new(0) };
}

/// Install a panic hook that stores the message + location in a thread-local instead of printing.
pub fn install_quiet_panic_hook() {
    std::panic::set_hook(Box::new(|info| {
        let msg = if let Some(s) = info.payload().downcast_ref::<&str>() {
            s.to_string()
        } else if let Some(s) = info.payload().downcast_ref::<String>() {
            s.clone()
        } else {
            "<non-string panic>".to_string()
        };
        let loc = info.location().map(|l| format!("{}:{}", l.file(), l.line())).unwrap_or_default();
        if GUARD_DEPTH.with(|d| d.get()) == 0 {
            // not inside a monitored client call: this is the harness itself failing - say so loudly
            eprintln!("HARNESS PANIC: {} @ {}", msg, loc);
        }
        LAST_PANIC.with(|p| *p.borrow_mut() = Some(format!("{} @ {}", msg, loc)));
    }));
}

#[derive(Clone, Debug, PartialEq)]
pub struct Panicked(pub String);

pub fn guarded<T>(f: impl FnOnce() -> T) -> Result<T, Panicked> {
    struct Depth;
    impl Drop for Depth {
        fn drop(&mut self) {
            GUARD_DEPTH.with(|d| d.set(d.get().saturating_sub(1)));
        }
    }
    GUARD_DEPTH.with(|d| d.set(d.get() + 1));
    let _depth = Depth;
    match catch_unwind(AssertUnwindSafe(f)) {
        Ok(v) => Ok(v),
        Err(_) => {
            let m = LAST_PANIC.with(|p| p.borrow_mut().take()).unwrap_or_else(|| "<panic>".to_string());
            Err(Panicked(m))
        }
    }
}

// ---------------------------------------------------------------------------------------------
// events

#[derive(Clone, Debug, PartialEq)]
pub enum Op {
    NextF(f64),
    NextBar(Bar),
    NextBar2(Bar),
    NextItem(Bar),
    Reset,
    Clone,
    Display,
    Debug,
    Period,
    Multiplier,
    Ser,
    SerDeSwap,
    /// replace the instance by its clone and drop the original
    CloneSwap,
    /// `used_instance.clone_from(self)`, then the used instance replaces self
    CloneFromSwap,
}

impl Op {
    pub fn to_json(&self) -> Value {
        match self {
            Op::NextF(x) => json!({"op": "next", "x": hexf(*x)}),
            Op::NextBar(b) => json!({"op": "bar", "ohlcv": b.to_json()}),
            Op::NextBar2(b) => json!({"op": "bar2", "ohlcv": b.to_json()}),
            Op::NextItem(b) => json!({"op": "item", "ohlcv": b.to_json()}),
            Op::Reset => json!({"op": "reset"}),
            Op::Clone => json!({"op": "clone"}),
            Op::Display => json!({"op": "display"}),
            Op::Debug => json!({"op": "debug"}),
            Op::Period => json!({"op": "period"}),
            Op::Multiplier => json!({"op": "multiplier"}),
            Op::Ser => json!({"op": "ser"}),
            Op::SerDeSwap => json!({"op": "serde_swap"}),
            Op::CloneSwap => json!({"op": "clone_swap"}),
            Op::CloneFromSwap => json!({"op": "clone_from_swap"}),
        }
    }
    pub fn from_json(v: &Value) -> Option<Op> {
        Some(match v.get("op")?.as_str()? {
            "next" => Op::NextF(parse_hexf(v.get("x")?.as_str()?)?),
            "bar" => Op::NextBar(Bar::from_json(v.get("ohlcv")?)?),
            "bar2" => Op::NextBar2(Bar::from_json(v.get("ohlcv")?)?),
            "item" => Op::NextItem(Bar::from_json(v.get("ohlcv")?)?),
            "reset" => Op::Reset,
            "clone" => Op::Clone,
            "display" => Op::Display,
            "debug" => Op::Debug,
            "period" => Op::Period,
            "multiplier" => Op::Multiplier,
            "ser" => Op::Ser,
            "serde_swap" => Op::SerDeSwap,
            "clone_swap" => Op::CloneSwap,
            "clone_from_swap" => Op::CloneFromSwap,
            _ => return None,
        })
    }
}

#[derive(Clone, Debug, PartialEq)]
pub enum Res {
    Out(Out),
    Unit,
    Text(String),
    Num(u64),
    F(f64),
    Bytes(usize),
    Unsupported,
    Panic(String),
    Error(String),
}

impl Res {
    pub fn to_json(&self) -> Value {
        match self {
            Res::Out(o) => json!({"out": o.to_json()}),
            Res::Unit => json!("ok"),
            Res::Text(s) => json!({"text": s}),
            Res::Num(n) => json!({"num": n.to_string()}),
            Res::F(x) => json!({"f": hexf(*x)}),
            Res::Bytes(n) => json!({"bytes": n}),
            Res::Unsupported => json!("unsupported"),
            Res::Panic(m) => json!({"panic": m}),
            Res::Error(m) => json!({"error": m}),
        }
    }
}

#[derive(Clone, Debug)]
pub struct Event {
    pub op: Op,
    pub res: Res,
}

pub static TOTAL_CALLS: AtomicU64 = AtomicU64::new(0);
pub static TOTAL_PANICS: AtomicU64 = AtomicU64::new(0);
pub static TOTAL_INSTANCES: AtomicU64 = AtomicU64::new(0);

// ---------------------------------------------------------------------------------------------
// Inst: the monitored client handle

pub struct Inst {
    pub params: Params,
    ind: Box<dyn Ind>,
    calls: u64,
    panics: u64,
    /// when Some, every call is appended (call recorded before invocation, result after return)
    pub trace: Option<Vec<Event>>,
    /// siblings kept alive: after a clone-swap the *original* stays around (up to three of them), as it does in
    /// a program that forks an indicator and goes on with the copy. They are never fed again; whatever the copy
    /// does (reset included) must not depend on their being there.
    kept: Vec<Box<dyn Ind>>,
}

impl Drop for Inst {
    fn drop(&mut self) {
        TOTAL_CALLS.fetch_add(self.calls, Ordering::Relaxed);
        TOTAL_PANICS.fetch_add(self.panics, Ordering::Relaxed);
    }
}

#[derive(Clone, Debug, PartialEq)]
pub enum NewError {
    Invalid(String),
    Panic(String),
}

impl Inst {
    /// constructor call observed at the client boundary
    /// An instance with the documented default parameters is obtained through `Default::default()`:
    /// the crate documents the two as the same thing (C11 compares them, through `try_new_explicit`), so
    /// every monitor that happens to run the default configuration also monitors default-constructed
    /// instances.
    pub fn try_new(p: &Params) -> Result<Inst, NewError> {
        if p.is_default() {
            return match Inst::new_default(p.kind) {
                Ok(i) => Ok(i),
                Err(Panicked(m)) => {
                    TOTAL_PANICS.fetch_add(1, Ordering::Relaxed);
                    Err(NewError::Panic(m))
                }
            };
        }
        Inst::try_new_explicit(p)
    }
    /// always through `new(..)`
    pub fn try_new_explicit(p: &Params) -> Result<Inst, NewError> {
        TOTAL_INSTANCES.fetch_add(1, Ordering::Relaxed);
        match guarded(|| construct_raw(p)) {
            Ok(Ok(ind)) => Ok(Inst { params: *p, ind, calls: 1, panics: 0, trace: None, kept: Vec::new() }),
            Ok(Err(e)) => Err(NewError::Invalid(format!("{:?}", e))),
            Err(Panicked(m)) => {
                TOTAL_PANICS.fetch_add(1, Ordering::Relaxed);
                Err(NewError::Panic(m))
            }
        }
    }
    pub fn new(p: &Params) -> Inst {
        match Inst::try_new(p) {
            Ok(i) => i,
            Err(e) => panic!("harness: cannot construct {:?}: {:?}", p, e),
        }
    }
    pub fn new_default(kind: Kind) -> Result<Inst, Panicked> {
        TOTAL_INSTANCES.fetch_add(1, Ordering::Relaxed);
        let ind = guarded(|| construct_default_raw(kind))?;
        Ok(Inst { params: kind.default_params(), ind, calls: 1, panics: 0, trace: None, kept: Vec::new() })
    }
    pub fn traced(mut self) -> Inst {
        self.trace = Some(Vec::new());
        self
    }
    pub fn kind(&self) -> Kind {
        self.params.kind
    }
    pub fn calls(&self) -> u64 {
        self.calls
    }

    #[inline]
    fn record(&mut self, op: impl FnOnce() -> Op, res: impl FnOnce() -> Res) {
        if let Some(t) = self.trace.as_mut() {
            t.push(Event { op: op(), res: res() });
        }
    }

    fn run_out(&mut self, op: Op, f: impl FnOnce(&mut dyn Ind) -> Option<Out>) -> Result<Out, Panicked> {
        self.calls += 1;
        // call event first (so a crash inside still leaves the call in the log) ...
        if let Some(t) = self.trace.as_mut() {
            t.push(Event { op, res: Res::Panic("<call did not return>".into()) });
        }
        let ind = self.ind.as_mut();
        let r = guarded(|| f(ind));
        let (res, ret) = match r {
            Ok(Some(o)) => (Res::Out(o), Ok(o)),
            Ok(None) => (Res::Unsupported, Err(Panicked("unsupported".into()))),
            Err(p) => {
                self.panics += 1;
                (Res::Panic(p.0.clone()), Err(p))
            }
        };
        // ... then the return event overwrites the placeholder
        if let Some(t) = self.trace.as_mut() {
            if let Some(last) = t.last_mut() {
                last.res = res;
            }
        }
        ret
    }

    #[inline]
    pub fn next_f64(&mut self, x: f64) -> Result<Out, Panicked> {
        if self.trace.is_none() {
            self.calls += 1;
            let ind = self.ind.as_mut();
            return match guarded(|| ind.next_f64(x)) {
                Ok(Some(o)) => Ok(o),
                Ok(None) => Err(Panicked("unsupported".into())),
                Err(p) => {
                    self.panics += 1;
                    Err(p)
                }
            };
        }
        self.run_out(Op::NextF(x), |i| i.next_f64(x))
    }
    #[inline]
    pub fn next_bar(&mut self, b: &Bar) -> Result<Out, Panicked> {
        if self.trace.is_none() {
            self.calls += 1;
            let ind = self.ind.as_mut();
            return match guarded(|| ind.next_bar(b)) {
                Ok(o) => Ok(o),
                Err(p) => {
                    self.panics += 1;
                    Err(p)
                }
            };
        }
        self.run_out(Op::NextBar(*b), |i| Some(i.next_bar(b)))
    }
    pub fn next_bar2(&mut self, b: &Bar) -> Result<Out, Panicked> {
        let b2 = Bar2::from_bar(b);
        self.run_out(Op::NextBar2(*b), |i| Some(i.next_bar2(&b2)))
    }
    /// `b` must be a valid bar (DataItem can only hold those); returns Err(unsupported) otherwise
    pub fn next_item(&mut self, b: &Bar) -> Result<Out, Panicked> {
        match b.to_item() {
            Some(item) => self.run_out(Op::NextItem(*b), |i| Some(i.next_item(&item))),
            None => Err(Panicked("unsupported".into())),
        }
    }
    /// feed either a scalar or a bar
    #[inline]
    pub fn feed(&mut self, x: &In) -> Result<Out, Panicked> {
        match x {
            In::S(v) => self.next_f64(*v),
            In::B(b) => self.next_bar(b),
        }
    }
    pub fn reset(&mut self) -> Result<(), Panicked> {
        self.calls += 1;
        let ind = self.ind.as_mut();
        let r = guarded(|| ind.reset());
        if r.is_err() {
            self.panics += 1;
        }
        let rr = r.clone();
        self.record(|| Op::Reset, || match rr {
            Ok(()) => Res::Unit,
            Err(p) => Res::Panic(p.0),
        });
        r
    }
    pub fn try_clone(&mut self) -> Result<Inst, Panicked> {
        self.calls += 1;
        TOTAL_INSTANCES.fetch_add(1, Ordering::Relaxed);
        let ind = self.ind.as_ref();
        let r = guarded(|| ind.clone_box());
        let ok = r.is_ok();
        self.record(|| Op::Clone, || if ok { Res::Unit } else { Res::Panic("clone".into()) });
        match r {
            Ok(b) => Ok(Inst { params: self.params, ind: b, calls: 0, panics: 0, trace: self.trace.clone(), kept: Vec::new() }),
            Err(p) => {
                self.panics += 1;
                Err(p)
            }
        }
    }
    pub fn display(&mut self) -> Result<String, Panicked> {
        self.calls += 1;
        let ind = self.ind.as_ref();
        let r = guarded(|| ind.display());
        if r.is_err() {
            self.panics += 1;
        }
        let rr = r.clone();
        self.record(|| Op::Display, || match rr {
            Ok(s) => Res::Text(s),
            Err(p) => Res::Panic(p.0),
        });
        r
    }
    pub fn debug(&mut self) -> Result<String, Panicked> {
        self.calls += 1;
        let ind = self.ind.as_ref();
        let r = guarded(|| ind.debug());
        if r.is_err() {
            self.panics += 1;
        }
        let rr = r.clone();
        self.record(|| Op::Debug, || match rr {
            Ok(s) => Res::Text(s),
            Err(p) => Res::Panic(p.0),
        });
        r
    }
    pub fn period(&mut self) -> Result<Option<usize>, Panicked> {
        self.calls += 1;
        let ind = self.ind.as_ref();
        let r = guarded(|| ind.period());
        if r.is_err() {
            self.panics += 1;
        }
        let rr = r.clone();
        self.record(|| Op::Period, || match rr {
            Ok(Some(n)) => Res::Num(n as u64),
            Ok(None) => Res::Unsupported,
            Err(p) => Res::Panic(p.0),
        });
        r
    }
    pub fn multiplier(&mut self) -> Result<Option<f64>, Panicked> {
        self.calls += 1;
        let ind = self.ind.as_ref();
        let r = guarded(|| ind.multiplier());
        if r.is_err() {
            self.panics += 1;
        }
        let rr = r.clone();
        self.record(|| Op::Multiplier, || match rr {
            Ok(Some(x)) => Res::F(x),
            Ok(None) => Res::Unsupported,
            Err(p) => Res::Panic(p.0),
        });
        r
    }
    pub fn ser(&mut self) -> Result<Vec<u8>, Panicked> {
        self.calls += 1;
        let ind = self.ind.as_ref();
        let r = guarded(|| ind.ser());
        let r = match r {
            Ok(Ok(b)) => Ok(b),
            Ok(Err(e)) => Err(Panicked(format!("serialize error: {}", e))),
            Err(p) => Err(p),
        };
        if r.is_err() {
            self.panics += 1;
        }
        let n = r.as_ref().map(|b| b.len()).map_err(|p| p.0.clone());
        self.record(|| Op::Ser, || match n {
            Ok(n) => Res::Bytes(n),
            Err(m) => Res::Error(m),
        });
        r
    }
    pub fn ser_size(&mut self) -> Result<u64, Panicked> {
        self.calls += 1;
        let ind = self.ind.as_ref();
        match guarded(|| ind.ser_size()) {
            Ok(Ok(n)) => Ok(n),
            Ok(Err(e)) => Err(Panicked(format!("serialized_size error: {}", e))),
            Err(p) => {
                self.panics += 1;
                Err(p)
            }
        }
    }
    /// deserialize `bytes` into a new handle of the same type
    pub fn de(&mut self, bytes: &[u8]) -> Result<Inst, Panicked> {
        self.calls += 1;
        TOTAL_INSTANCES.fetch_add(1, Ordering::Relaxed);
        let ind = self.ind.as_ref();
        match guarded(|| ind.de(bytes)) {
            Ok(Ok(b)) => Ok(Inst { params: self.params, ind: b, calls: 0, panics: 0, trace: self.trace.clone(), kept: Vec::new() }),
            Ok(Err(e)) => Err(Panicked(format!("deserialize error: {}", e))),
            Err(p) => {
                self.panics += 1;
                Err(p)
            }
        }
    }
    pub fn ser_json(&mut self) -> Result<String, Panicked> {
        self.calls += 1;
        let ind = self.ind.as_ref();
        match guarded(|| ind.ser_json()) {
            Ok(Ok(s)) => Ok(s),
            Ok(Err(e)) => Err(Panicked(format!("json serialize error: {}", e))),
            Err(p) => {
                self.panics += 1;
                Err(p)
            }
        }
    }
    pub fn de_json(&mut self, s: &str) -> Result<Inst, Panicked> {
        self.calls += 1;
        TOTAL_INSTANCES.fetch_add(1, Ordering::Relaxed);
        let ind = self.ind.as_ref();
        match guarded(|| ind.de_json(s)) {
            Ok(Ok(b)) => Ok(Inst { params: self.params, ind: b, calls: 0, panics: 0, trace: self.trace.clone(), kept: Vec::new() }),
            Ok(Err(e)) => Err(Panicked(format!("json deserialize error: {}", e))),
            Err(p) => {
                self.panics += 1;
                Err(p)
            }
        }
    }
    /// replace self by deserialize(serialize(self))
    pub fn serde_swap(&mut self) -> Result<(), Panicked> {
        let bytes = self.ser()?;
        let mut n = self.de(&bytes)?;
        std::mem::swap(&mut self.ind, &mut n.ind);
        self.record(|| Op::SerDeSwap, || Res::Bytes(bytes.len()));
        Ok(())
    }
    /// replace self by a clone of itself (the original is dropped)
    pub fn clone_swap(&mut self) -> Result<(), Panicked> {
        let mut c = self.try_clone()?;
        std::mem::swap(&mut self.ind, &mut c.ind);
        // c.ind is now the original: keep it alive next to the copy
        let placeholder = self.ind.clone_box();
        let original = std::mem::replace(&mut c.ind, placeholder);
        if self.kept.len() >= 3 {
            self.kept.remove(0);
        }
        self.kept.push(original);
        self.record(|| Op::CloneSwap, || Res::Unit);
        Ok(())
    }
    /// restore a checkpoint *into this instance* (serde's in-place path), whatever state it is in
    pub fn restore_in_place(&mut self, bytes: &[u8]) -> Result<(), Panicked> {
        self.calls += 1;
        let me = self.ind.as_mut();
        match guarded(|| me.de_in_place(bytes)) {
            Ok(Ok(())) => Ok(()),
            Ok(Err(e)) => Err(Panicked(format!("deserialize_in_place: {}", e))),
            Err(p) => {
                self.panics += 1;
                Err(p)
            }
        }
    }
    /// `Clone::clone_from(self, src)` at the client boundary
    pub fn assign_from(&mut self, src: &Inst) -> Result<(), Panicked> {
        self.calls += 1;
        let s = src.ind.as_ref();
        let me = self.ind.as_mut();
        match guarded(|| me.assign_from(s)) {
            Ok(true) => {
                self.params = src.params;
                Ok(())
            }
            Ok(false) => Err(Panicked("clone_from between different indicator types".into())),
            Err(p) => {
                self.panics += 1;
                Err(p)
            }
        }
    }
    /// `Clone::clone_from`: a *used* instance with the same parameters (it has its own, different
    /// history) is overwritten with a copy of self and then takes self's place.
    pub fn clone_from_swap(&mut self) -> Result<(), Panicked> {
        self.calls += 1;
        let params = self.params;
        let calls = self.calls;
        let src = self.ind.as_ref();
        let r = guarded(|| {
            // the receiver was built with the same periods, with smaller ones or with larger ones, in turn
            // (clone_from must then shrink or grow whatever it reuses), and has wrapped its own window
            let rp = params.receiver_variant(calls as usize);
            let mut other = construct_raw(&rp).ok()?;
            // give the receiver a history of its own first
            for i in 0..(rp.max_period().min(140) + 3) {
                let v = 31.0 + ((i * 7) % 11) as f64;
                if params.kind.has_scalar() {
                    let _ = other.next_f64(v);
                } else {
                    let _ = other.next_bar(&Bar { o: v, h: v + 2.0, l: v - 1.0, c: v + 0.5, v: 2.0 });
                }
            }
            if other.assign_from(src) {
                Some(other)
            } else {
                None
            }
        });
        match r {
            Ok(Some(mut o)) => {
                std::mem::swap(&mut self.ind, &mut o);
                self.record(|| Op::CloneFromSwap, || Res::Unit);
                Ok(())
            }
            Ok(None) => Err(Panicked("clone_from: receiver could not be built".into())),
            Err(p) => {
                self.panics += 1;
                Err(p)
            }
        }
    }
    /// Semantically transparent identity change (C05/C06 say outputs must not depend on it):
    /// `which` % 3: 0 -> clone-and-replace, 1 -> serialize/deserialize-and-replace, 2 -> clone_from into a
    /// used instance which then takes over.
    pub fn perturb(&mut self, which: usize) -> Op {
        if which % 3 == 2 {
            let _ = self.clone_from_swap();
            Op::CloneFromSwap
        } else if which % 3 == 0 {
            let _ = self.clone_swap();
            Op::CloneSwap
        } else {
            let _ = self.serde_swap();
            Op::SerDeSwap
        }
    }
    /// read-only observers (`&self` methods): Display, Debug, period(), multiplier(), serialize, and a
    /// clone that is dropped at once. Calling them between two inputs must not change any later output.
    pub fn observe(&mut self) {
        let _ = self.display();
        let _ = self.debug();
        let _ = self.period();
        let _ = self.multiplier();
        let _ = self.ser();
        let _ = self.try_clone();
    }
    /// apply a recorded op (used by replays and op-programs); Clone/Ser are executed and dropped
    pub fn apply(&mut self, op: &Op) -> Res {
        fn r<T>(x: Result<T, Panicked>, f: impl FnOnce(T) -> Res) -> Res {
            match x {
                Ok(v) => f(v),
                Err(p) if p.0 == "unsupported" => Res::Unsupported,
                Err(p) => Res::Panic(p.0),
            }
        }
        match op {
            Op::NextF(x) => r(self.next_f64(*x), Res::Out),
            Op::NextBar(b) => r(self.next_bar(b), Res::Out),
            Op::NextBar2(b) => r(self.next_bar2(b), Res::Out),
            Op::NextItem(b) => r(self.next_item(b), Res::Out),
            Op::Reset => r(self.reset(), |_| Res::Unit),
            Op::Clone => r(self.try_clone(), |_| Res::Unit),
            Op::Display => r(self.display(), Res::Text),
            Op::Debug => r(self.debug(), Res::Text),
            Op::Period => r(self.period(), |p| p.map(|n| Res::Num(n as u64)).unwrap_or(Res::Unsupported)),
            Op::Multiplier => r(self.multiplier(), |p| p.map(Res::F).unwrap_or(Res::Unsupported)),
            Op::Ser => r(self.ser(), |b| Res::Bytes(b.len())),
            Op::SerDeSwap => r(self.serde_swap(), |_| Res::Unit),
            Op::CloneSwap => r(self.clone_swap(), |_| Res::Unit),
            Op::CloneFromSwap => r(self.clone_from_swap(), |_| Res::Unit),
        }
    }
    pub fn trace_json(&self) -> Value {
        match &self.trace {
            Some(t) => Value::Array(t.iter().map(|e| json!({"call": e.op.to_json(), "ret": e.res.to_json()})).collect()),
            None => Value::Null,
        }
    }
}

/// one input: scalar or bar
#[derive(Clone, Copy, Debug, PartialEq)]
pub enum In {
    S(f64),
    B(Bar),
}
impl In {
    pub fn to_op(&self) -> Op {
        match self {
            In::S(x) => Op::NextF(*x),
            In::B(b) => Op::NextBar(*b),
        }
    }
    pub fn to_json(&self) -> Value {
        self.to_op().to_json()
    }
    pub fn is_finite(&self) -> bool {
        match self {
            In::S(x) => x.is_finite(),
            In::B(b) => b.fields().iter().all(|f| f.is_finite()),
        }
    }
}
