//! Deterministic PRNG (splitmix64 seeding + xoshiro256**), no dependency.

#[derive(Clone, Debug)]
pub struct Rng {
    s: [u64; 4],
}

fn splitmix(x: &mut u64) -> u64 {
    *x = x.wrapping_add(0x9E3779B97F4A7C15);
    let mut z = *x;
    z = (z ^ (z >> 30)).wrapping_mul(0xBF58476D1CE4E5B9);
    z = (z ^ (z >> 27)).wrapping_mul(0x94D049BB133111EB);
    z ^ (z >> 31)
}

impl Rng {
    pub fn new(seed: u64) -> Rng {
        let mut x = seed;
        let s = [splitmix(&mut x), splitmix(&mut x), splitmix(&mut x), splitmix(&mut x)];
        Rng { s }
    }
    /// Independent stream derived from this seed and a label.
    pub fn derive(seed: u64, a: u64, b: u64) -> Rng {
        let mut x = seed ^ a.wrapping_mul(0xA24BAED4963EE407) ^ b.wrapping_mul(0x9FB21C651E98DF25);
        let _ = splitmix(&mut x);
        Rng::new(x)
    }
    #[inline]
    pub fn u64(&mut self) -> u64 {
        let r = self.s[1].wrapping_mul(5).rotate_left(7).wrapping_mul(9);
        let t = self.s[1] << 17;
        self.s[2] ^= self.s[0];
        self.s[3] ^= self.s[1];
        self.s[1] ^= self.s[2];
        self.s[0] ^= self.s[3];
        self.s[2] ^= t;
        self.s[3] = self.s[3].rotate_left(45);
        r
    }
    /// uniform in [0,1)
    #[inline]
    pub fn f(&mut self) -> f64 {
        (self.u64() >> 11) as f64 * (1.0 / (1u64 << 53) as f64)
    }
    /// uniform integer in [0, n)
    #[inline]
    pub fn below(&mut self, n: usize) -> usize {
        if n == 0 {
            return 0;
        }
        ((self.u64() as u128 * n as u128) >> 64) as usize
    }
    /// uniform integer in [lo, hi] inclusive
    #[inline]
    pub fn range(&mut self, lo: usize, hi: usize) -> usize {
        lo + self.below(hi - lo + 1)
    }
    #[inline]
    pub fn uniform(&mut self, lo: f64, hi: f64) -> f64 {
        lo + (hi - lo) * self.f()
    }
    #[inline]
    pub fn chance(&mut self, p: f64) -> bool {
        self.f() < p
    }
    /// standard normal (Box–Muller)
    pub fn normal(&mut self) -> f64 {
        let u1 = 1.0 - self.f();
        let u2 = self.f();
        (-2.0 * u1.ln()).sqrt() * (2.0 * std::f64::consts::PI * u2).cos()
    }
    /// log-uniform in [lo, hi], lo>0
    pub fn log_uniform(&mut self, lo: f64, hi: f64) -> f64 {
        (lo.ln() + (hi.ln() - lo.ln()) * self.f()).exp()
    }
    pub fn pick<'a, T>(&mut self, xs: &'a [T]) -> &'a T {
        &xs[self.below(xs.len())]
    }
}
