//! Value oracles shared by several properties: given the observed output and the reference
//! components at one step, produce the list of (observed, reference, tolerance) judgements the
//! property statements ask for. Tolerances are the properties' own (DESIGN §3).

use crate::common::{compare_dd, Cmp};
use crate::dd::{dd, Dd};
use crate::inst::{hexf, Kind, Out, Params};
use crate::refmodel::{tau, RefOut, EPS};
use crate::report::Report;
use serde_json::{json, Value};

#[derive(Clone, Copy, Debug)]
pub struct Judged {
    pub name: &'static str,
    pub component: usize,
    pub transform: &'static str,
    pub got_raw: f64,
    pub got: Dd,
    pub reference: Dd,
    pub tol: f64,
}

pub type Judgements = Vec<Judged>;

fn j(name: &'static str, component: usize, got: f64, reference: Dd, tol: f64) -> Judged {
    Judged { name, component, transform: "id", got_raw: got, got: dd(got), reference, tol }
}

/// C01 / C13 / C17: SMA, WMA, SD, MAD, MIN, MAX, BB against window statistics.
/// `tol_t` is the t used in τ(t); `m` the magnitude scale (largest magnitude fed so far).
pub fn window_judgements(p: &Params, out: &Out, r: &RefOut, tol_t: usize, m: f64, res: &mut Judgements) {
    let tq = tau(tol_t);
    match p.kind {
        Kind::Sma | Kind::Wma | Kind::Mad => res.push(j("value", 0, out.v[0], r.v[0], tq * m)),
        Kind::Min | Kind::Max => res.push(j("value", 0, out.v[0], r.v[0], 0.0)),
        Kind::Sd => {
            let g = out.v[0];
            let mut q = Judged { name: "variance", component: 0, transform: "square", got_raw: g, got: dd(g).sqr(), reference: r.v[0], tol: tq * m * m };
            if g < 0.0 {
                // a negative standard deviation is wrong whatever its square is
                q.got_raw = f64::NAN;
            }
            res.push(q);
        }
        Kind::Bb => {
            let k = p.k;
            res.push(j("average", 0, out.v[0], r.v[0], tq * m));
            let (up, lo) = (out.v[1], out.v[2]);
            let hw = (dd(up) - dd(lo)) / dd(2.0);
            let var = r.v[1];
            let sd = var.sqrt().to_f64();
            let ksd = k.abs() * sd;
            // forming mean ± k·sd in f64 perturbs each band by ≤ ε(M + |k|·sd); propagate to hw²
            let delta = 4.0 * EPS * (m + ksd);
            let slack = 2.0 * ksd * delta + delta * delta;
            let raw = if up.is_nan() || lo.is_nan() { f64::NAN } else if up.is_infinite() || lo.is_infinite() { f64::INFINITY } else { hw.to_f64() };
            res.push(Judged {
                name: "halfwidth_sq",
                component: 1,
                transform: "halfwidth_sq",
                got_raw: raw,
                got: hw.sqr(),
                reference: dd(k).sqr() * var,
                tol: tq * m * m * (k * k).max(1.0) + slack,
            });
            // upper is mean + k*sd, lower is mean - k*sd: for k < 0 the "upper" band lies below. The signed
            // half-width must carry the sign of k (rounding cannot flip it: x + d >= x - d for d >= 0).
            if !raw.is_nan() && raw.is_finite() {
                let signed = hw.to_f64() * if k < 0.0 { -1.0 } else { 1.0 };
                res.push(Judged { name: "band_orientation", component: 1, transform: "halfwidth", got_raw: raw, got: dd(signed), reference: dd(hw.to_f64().abs()), tol: 0.0 });
            }
            // the bands must be centred on the average: (upper+lower)/2 == average within formation rounding
            let mid = (dd(up) + dd(lo)) / dd(2.0);
            res.push(Judged { name: "centre", component: 1, transform: "mid", got_raw: raw, got: mid, reference: r.v[0], tol: tq * m + delta });
        }
        _ => {}
    }
}

/// C02: EMA, TR, ATR, MACD, KC, CE against the documented recursions.
pub fn ema_family_judgements(p: &Params, out: &Out, r: &RefOut, res: &mut Judgements) {
    let tq = tau(r.t);
    let m = r.m;
    let k = p.k;
    let kk = k.abs().max(1.0);
    match p.kind {
        Kind::Ema | Kind::Tr | Kind::Atr => res.push(j("value", 0, out.v[0], r.v[0], tq * m)),
        Kind::Macd => {
            res.push(j("macd", 0, out.v[0], r.v[0], tq * m));
            res.push(j("signal", 1, out.v[1], r.v[1], tq * m));
            res.push(j("histogram", 2, out.v[2], r.v[2], tq * m));
        }
        Kind::Kc => {
            let (avg, atr) = (r.v[0], r.v[1]);
            let form = 4.0 * EPS * m * (1.0 + 2.0 * kk);
            res.push(j("average", 0, out.v[0], avg, tq * m));
            res.push(j("upper", 1, out.v[1], avg + dd(k) * atr, tq * m * kk + form));
            res.push(j("lower", 2, out.v[2], avg - dd(k) * atr, tq * m * kk + form));
        }
        Kind::Ce => {
            let (mx, mn, atr) = (r.v[0], r.v[1], r.v[2]);
            let form = 4.0 * EPS * m * (1.0 + 2.0 * kk);
            res.push(j("long", 0, out.v[0], mx - dd(k) * atr, tq * m * kk + form));
            res.push(j("short", 1, out.v[1], mn + dd(k) * atr, tq * m * kk + form));
        }
        _ => {}
    }
}

pub const C_CUTOFF: f64 = 1e6;

/// C03: oscillators; returns the number of components skipped as ill-conditioned / degenerate.
pub fn osc_judgements(p: &Params, out: &Out, r: &RefOut, res: &mut Judgements) -> usize {
    let tq = tau(r.t);
    // Degenerate steps have no formula value to compare with, except where the statement names the
    // neutral output and the degenerate case is decided without rounding: FastStochastic's high_n == low_n
    // is a comparison of raw inputs (50, and SlowStochastic averages it), and a CCI window of bit-identical
    // bars has MAD exactly 0 in any arithmetic (0).
    let neutral_is_exact = matches!(p.kind, Kind::Fast | Kind::Slow) || (p.kind == Kind::Cci && r.exact_neutral);
    if (r.degenerate && !neutral_is_exact) || r.near_tie {
        return out.n;
    }
    let mut skipped = 0;
    let names: &[&'static str] = p.kind.out_names();
    for i in 0..out.n {
        let c = r.c[i];
        if !(c <= C_CUTOFF) {
            skipped += 1;
            continue;
        }
        res.push(j(names[i], i, out.v[i], r.v[i], tq * c.max(1.0) * r.scale));
    }
    skipped
}

/// Evaluate judgements; report violations under `property` with signatures
/// KIND/<oracle>.<name>/<class>/<tag>. `mk_ops` builds the replay program lazily.
#[allow(clippy::too_many_arguments)]
pub fn settle(rep: &mut Report, property: &str, oracle: &str, p: &Params, tag: &str, t: usize, js: &Judgements, mk_ops: &mut dyn FnMut() -> Value) -> bool {
    let mut ok = true;
    for q in js {
        rep.evaluations += 1;
        let key = format!("{}.{}.{}", oracle, p.kind.name(), q.name);
        match compare_dd(q.got_raw, q.got, q.reference, q.tol) {
            Cmp::Ok(ratio) => rep.ratio(&key, ratio),
            Cmp::Bad { err, ratio, class } => {
                ok = false;
                rep.ratio(&key, ratio);
                let sig = format!("{}/{}.{}/{}/{}", p.kind.name(), oracle, q.name, class, tag);
                if rep.is_new_sig(&sig) {
                    let detail = format!(
                        "{} t={} {}: observed {:e} ({}) reference {:e} |err| {:e} > tol {:e} (ratio {:.3e})",
                        p.label(), t, q.name, q.got.to_f64(), q.transform, q.reference.to_f64(), err, q.tol, ratio
                    );
                    let replay = json!({
                        "property": property, "sig": sig,
                        "programs": [{"params": p.to_json(), "ops": mk_ops()}],
                        "check": {"type": "value", "program": 0, "component": q.component, "transform": q.transform,
                                  "expected": hexf(q.reference.to_f64()), "tol": hexf(q.tol)},
                        "observed": hexf(q.got_raw), "step": t, "detail": detail,
                    });
                    rep.violation(sig, detail, replay);
                } else {
                    rep.violation_again(&sig);
                }
            }
        }
    }
    ok
}
