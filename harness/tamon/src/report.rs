//! What a monitor run observed: violations (distinct signatures, with replay witnesses), coverage
//! counters, worst error/tolerance ratios, sample events. Thread-local reports are merged.

use serde_json::{json, Map, Value};
use std::collections::{BTreeMap, HashSet};
use std::sync::atomic::{AtomicUsize, Ordering};
use std::sync::Mutex;

pub const MAX_DISTINCT_VIOLATIONS: usize = 40;
pub const MAX_SAMPLES: usize = 12;

#[derive(Clone, Debug)]
pub struct Violation {
    /// stable signature: KIND/oracle/class[/band]; known findings are keyed on it
    pub sig: String,
    pub detail: String,
    pub replay: Value,
}

#[derive(Default, Debug)]
pub struct Report {
    pub violations: Vec<Violation>,
    pub sig_counts: BTreeMap<String, u64>,
    pub counters: BTreeMap<String, u64>,
    /// worst observed error ÷ tolerance per oracle id (the margin)
    pub ratios: BTreeMap<String, f64>,
    pub samples: Vec<Value>,
    pub evaluations: u64,
    /// hashes of distinct non-trivial cases (by the property's stated rule)
    pub distinct: HashSet<u64>,
    /// distinct non-trivial cases that are distinct by construction (exhaustive enumerations)
    pub distinct_by_construction: u64,
    pub inconclusive: Vec<String>,
    pub notes: Vec<String>,
    /// complete sampled traces (inputs, outputs, reference values, online verdicts) for the
    /// independent offline checker
    pub traces: Vec<Value>,
    pub trace_counts: BTreeMap<String, u32>,
}

impl Report {
    pub fn new() -> Report {
        Report::default()
    }
    #[inline]
    pub fn count(&mut self, key: &str) {
        self.add(key, 1)
    }
    #[inline]
    pub fn add(&mut self, key: &str, n: u64) {
        match self.counters.get_mut(key) {
            Some(c) => *c += n,
            None => {
                self.counters.insert(key.to_string(), n);
            }
        }
    }
    #[inline]
    pub fn ratio(&mut self, key: &str, r: f64) {
        match self.ratios.get_mut(key) {
            Some(e) => {
                if r > *e || r.is_nan() {
                    *e = r;
                }
            }
            None => {
                self.ratios.insert(key.to_string(), r);
            }
        }
    }
    pub fn sample(&mut self, v: Value) {
        if self.samples.len() < MAX_SAMPLES {
            self.samples.push(v);
        }
    }
    /// at most a few traces per indicator kind and per thread
    pub fn wants_trace(&mut self, kind: &str) -> bool {
        let c = self.trace_counts.entry(kind.to_string()).or_insert(0);
        if *c < 2 {
            *c += 1;
            true
        } else {
            false
        }
    }
    pub fn wants_sample(&self) -> bool {
        self.samples.len() < MAX_SAMPLES
    }
    pub fn distinct_case(&mut self, h: u64) {
        if self.distinct.len() < 4_000_000 {
            self.distinct.insert(h);
        }
    }
    /// returns true when this signature is new (callers build the replay witness only then)
    pub fn is_new_sig(&self, sig: &str) -> bool {
        !self.sig_counts.contains_key(sig)
    }
    pub fn violation(&mut self, sig: String, detail: String, replay: Value) {
        let c = self.sig_counts.entry(sig.clone()).or_insert(0);
        *c += 1;
        if *c == 1 && self.violations.len() < MAX_DISTINCT_VIOLATIONS {
            self.violations.push(Violation { sig, detail, replay });
        }
    }
    /// count an occurrence of an already-known signature
    pub fn violation_again(&mut self, sig: &str) {
        *self.sig_counts.entry(sig.to_string()).or_insert(0) += 1;
    }
    pub fn total_violation_events(&self) -> u64 {
        self.sig_counts.values().sum()
    }
    pub fn merge(&mut self, o: Report) {
        for v in o.violations {
            if !self.violations.iter().any(|x| x.sig == v.sig) && self.violations.len() < MAX_DISTINCT_VIOLATIONS {
                self.violations.push(v);
            }
        }
        for (k, v) in o.sig_counts {
            *self.sig_counts.entry(k).or_insert(0) += v;
        }
        for (k, v) in o.counters {
            *self.counters.entry(k).or_insert(0) += v;
        }
        for (k, v) in o.ratios {
            self.ratio(&k, v);
        }
        for s in o.samples {
            self.sample(s);
        }
        self.evaluations += o.evaluations;
        self.distinct_by_construction += o.distinct_by_construction;
        for h in o.distinct {
            self.distinct_case(h);
        }
        self.inconclusive.extend(o.inconclusive);
        self.notes.extend(o.notes);
        for t in o.traces {
            let k = t.get("kind").and_then(|x| x.as_str()).unwrap_or("?").to_string();
            let c = self.trace_counts.entry(format!("merged.{}", k)).or_insert(0);
            if *c < 8 {
                *c += 1;
                self.traces.push(t);
            }
        }
    }
    pub fn distinct_nontrivial(&self) -> u64 {
        self.distinct.len() as u64 + self.distinct_by_construction
    }
    pub fn to_json(&self) -> Value {
        let mut counters = Map::new();
        for (k, v) in &self.counters {
            counters.insert(k.clone(), json!(v));
        }
        let mut ratios = Map::new();
        for (k, v) in &self.ratios {
            ratios.insert(k.clone(), if v.is_finite() { json!(v) } else { json!(format!("{}", v)) });
        }
        let mut sigs = Map::new();
        for (k, v) in &self.sig_counts {
            sigs.insert(k.clone(), json!(v));
        }
        json!({
            "evaluations": self.evaluations,
            "distinct_nontrivial": self.distinct_nontrivial(),
            "counters": counters,
            "worst_error_over_tolerance": ratios,
            "samples": self.samples,
            "violations": self.violations.iter().map(|v| json!({"sig": v.sig, "detail": v.detail, "replay": v.replay})).collect::<Vec<_>>(),
            "violation_signature_counts": sigs,
            "inconclusive": self.inconclusive,
            "notes": self.notes,
        })
    }
}

pub fn fnv(bytes: &[u8]) -> u64 {
    let mut h: u64 = 0xcbf29ce484222325;
    for b in bytes {
        h ^= *b as u64;
        h = h.wrapping_mul(0x100000001b3);
    }
    h
}
pub fn hash_f64s(seed: u64, xs: &[f64]) -> u64 {
    let mut h: u64 = 0xcbf29ce484222325 ^ seed.wrapping_mul(0x9E3779B97F4A7C15);
    for x in xs {
        h ^= x.to_bits();
        h = h.wrapping_mul(0x100000001b3);
        h ^= h >> 29;
    }
    h
}

/// Run `jobs` on `threads` OS threads; each job gets a thread-local Report; reports are merged.
pub fn par_run<J: Send + Sync, F: Fn(&J, &mut Report) + Send + Sync>(jobs: Vec<J>, threads: usize, f: F) -> Report {
    let next = AtomicUsize::new(0);
    let total = Mutex::new(Report::new());
    let threads = threads.max(1).min(jobs.len().max(1));
    std::thread::scope(|s| {
        for _ in 0..threads {
            s.spawn(|| {
                let mut local = Report::new();
                loop {
                    let i = next.fetch_add(1, Ordering::Relaxed);
                    if i >= jobs.len() {
                        break;
                    }
                    f(&jobs[i], &mut local);
                }
                total.lock().unwrap().merge(local);
            });
        }
    });
    total.into_inner().unwrap()
}
