//! Shared context and oracle helpers for the property monitors.

use crate::dd::{dd, Dd};
use crate::inst::{hexf, In, Inst, Op, Out, Params};
use crate::report::Report;
use serde_json::{json, Value};

#[derive(Clone, Copy, Debug, PartialEq)]
pub enum Tier {
    Quick,
    Thorough,
}

#[derive(Clone, Debug)]
pub struct Ctx {
    pub tier: Tier,
    pub seed: u64,
    pub threads: usize,
    pub repo: String,
    /// optional sub-selection of a monitor's phases (for debugging / targeted reruns)
    pub only: Option<String>,
    /// phases left out (the driver re-runs a monitor without its huge-period phase when that phase got
    /// the process killed, so that the other phases still report)
    pub skip: Option<String>,
}

impl Ctx {
    pub fn quick(&self) -> bool {
        self.tier == Tier::Quick
    }
    pub fn pick<T>(&self, q: T, t: T) -> T {
        if self.quick() {
            q
        } else {
            t
        }
    }
    pub fn phase_enabled(&self, name: &str) -> bool {
        if let Some(s) = &self.skip {
            if s.split(',').any(|x| x == name) {
                return false;
            }
        }
        match &self.only {
            None => true,
            Some(s) => s.split(',').any(|x| x == name),
        }
    }
}

/// periods far beyond any window an indicator could allocate: legal for the allocation-free indicators
/// (EMA and everything built only from EMAs)
pub const HUGE_PERIODS: [usize; 6] = [1usize << 31, 1usize << 32, (1usize << 32) + 5, (1usize << 53) + 1, usize::MAX - 1, usize::MAX];

/// parameter sets with a huge period in each period slot of the allocation-free indicators
pub fn huge_period_params() -> Vec<Params> {
    use crate::inst::Kind;
    let mut v = Vec::new();
    for &big in &HUGE_PERIODS {
        for kind in [Kind::Ema, Kind::Atr, Kind::Rsi] {
            v.push(Params::new1(kind, big));
        }
        v.push(Params::new1(Kind::Kc, big).with_k(2.0));
        for kind in [Kind::Macd, Kind::Ppo] {
            for slot in 0..3 {
                let mut p = Params { kind, p: [12, 26, 9], k: 0.0 };
                p.p[slot] = big;
                v.push(p);
            }
        }
        v.push(Params { kind: Kind::Slow, p: [5, big, 0], k: 0.0 });
    }
    v
}

pub fn ops_json(inputs: &[In]) -> Value {
    Value::Array(inputs.iter().map(|x| x.to_json()).collect())
}
pub fn ops_json_ops(ops: &[Op]) -> Value {
    Value::Array(ops.iter().map(|x| x.to_json()).collect())
}
pub fn scalars_json(xs: &[f64]) -> Value {
    Value::Array(xs.iter().map(|x| In::S(*x).to_json()).collect())
}

/// replay witness: a single program and an expected value for one (transformed) output component
#[allow(clippy::too_many_arguments)]
pub fn replay_value(property: &str, sig: &str, p: &Params, ops: Value, component: usize, transform: &str, expected: Dd, tol: f64, got: f64, note: &str) -> Value {
    json!({
        "property": property, "sig": sig,
        "programs": [{"params": p.to_json(), "ops": ops}],
        "check": {"type": "value", "program": 0, "component": component, "transform": transform,
                  "expected": hexf(expected.to_f64()), "expected_lo": hexf(expected.lo), "tol": hexf(tol)},
        "observed": hexf(got), "note": note,
    })
}

/// replay witness: two programs whose final outputs must satisfy out_a ≈ factor·out_b + shift
#[allow(clippy::too_many_arguments)]
pub fn replay_twin(property: &str, sig: &str, pa: &Params, ops_a: Value, pb: &Params, ops_b: Value, component: usize, transform: &str, factor: f64, shift: f64, tol_abs: f64, tol_rel: f64, note: &str) -> Value {
    json!({
        "property": property, "sig": sig,
        "programs": [{"params": pa.to_json(), "ops": ops_a}, {"params": pb.to_json(), "ops": ops_b}],
        "check": {"type": "twin", "component": component, "transform": transform, "factor": hexf(factor), "shift": hexf(shift),
                  "tol_abs": hexf(tol_abs), "tol_rel": hexf(tol_rel)},
        "note": note,
    })
}

pub fn replay_nopanic(property: &str, sig: &str, p: &Params, ops: Value, note: &str) -> Value {
    json!({
        "property": property, "sig": sig,
        "programs": [{"params": p.to_json(), "ops": ops}],
        "check": {"type": "nopanic"},
        "note": note,
    })
}

pub fn replay_range(property: &str, sig: &str, p: &Params, ops: Value, component: usize, lo: f64, hi: f64, note: &str) -> Value {
    json!({
        "property": property, "sig": sig,
        "programs": [{"params": p.to_json(), "ops": ops}],
        "check": {"type": "range", "component": component, "lo": hexf(lo), "hi": hexf(hi)},
        "note": note,
    })
}

pub fn replay_rerun(property: &str, sig: &str, note: &str, data: Value) -> Value {
    json!({"property": property, "sig": sig, "check": {"type": "rerun"}, "note": note, "data": data})
}

/// Outcome of comparing one observed value with a reference at a tolerance.
pub enum Cmp {
    Ok(f64),
    Bad { err: f64, ratio: f64, class: &'static str },
}

/// |got − reference| ≤ tol ?  (NaN / inf observed → class nan / inf)
#[inline]
pub fn compare(got: f64, reference: Dd, tol: f64) -> Cmp {
    if got.is_nan() {
        return Cmp::Bad { err: f64::NAN, ratio: f64::INFINITY, class: "nan" };
    }
    if got.is_infinite() {
        return Cmp::Bad { err: f64::INFINITY, ratio: f64::INFINITY, class: "inf" };
    }
    let err = (dd(got) - reference).abs().to_f64();
    if err <= tol {
        Cmp::Ok(if tol > 0.0 { err / tol } else { 0.0 })
    } else {
        Cmp::Bad { err, ratio: if tol > 0.0 { err / tol } else { f64::INFINITY }, class: "mismatch" }
    }
}

/// same, with the observed value already transformed (squared, half-width, …) in double-double;
/// `raw` is the untransformed observation, used only to classify NaN / inf
#[inline]
pub fn compare_dd(raw: f64, got: Dd, reference: Dd, tol: f64) -> Cmp {
    if raw.is_nan() || got.hi.is_nan() {
        return Cmp::Bad { err: f64::NAN, ratio: f64::INFINITY, class: "nan" };
    }
    if raw.is_infinite() || got.hi.is_infinite() {
        return Cmp::Bad { err: f64::INFINITY, ratio: f64::INFINITY, class: "inf" };
    }
    let err = (got - reference).abs().to_f64();
    if err <= tol {
        Cmp::Ok(if tol > 0.0 { err / tol } else { 0.0 })
    } else {
        Cmp::Bad { err, ratio: if tol > 0.0 { err / tol } else { f64::INFINITY }, class: "mismatch" }
    }
}

/// window phase label for coverage and signatures
#[inline]
pub fn phase(t: usize, n: usize) -> &'static str {
    if t < n {
        "warmup"
    } else if t == n {
        "full"
    } else if t <= n.saturating_mul(2) {
        "wrapped1"
    } else {
        "wrapped2+"
    }
}

/// feed and unwrap; a panic is reported by the caller
pub fn feed_all(inst: &mut Inst, xs: &[In]) -> Result<Option<Out>, (usize, String)> {
    let mut last = None;
    for (i, x) in xs.iter().enumerate() {
        match inst.feed(x) {
            Ok(o) => last = Some(o),
            Err(p) => return Err((i, p.0)),
        }
    }
    Ok(last)
}

/// record a panic observed while driving a domain-valid workload
pub fn panic_violation(rep: &mut Report, property: &str, oracle: &str, p: &Params, ops: Value, msg: &str) {
    // strip line numbers so refactors keep the signature stable, keep the message class
    let class = if msg.contains("overflow") {
        "overflow"
    } else if msg.contains("index out of bounds") || msg.contains("out of range") {
        "oob"
    } else if msg.contains("unsupported") {
        "unsupported"
    } else {
        "panic"
    };
    let sig = format!("{}/{}/panic-{}", p.kind.name(), oracle, class);
    if rep.is_new_sig(&sig) {
        let replay = replay_nopanic(property, &sig, p, ops, msg);
        rep.violation(sig, format!("{} panicked: {}", p.label(), msg), replay);
    } else {
        rep.violation_again(&sig);
    }
}
