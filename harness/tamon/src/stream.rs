//! Drive one monitored instance and its reference model over a stream, judging every step.

use crate::common::{ops_json, panic_violation, phase};
use crate::inst::{In, Inst, Out, Params};
use crate::oracles::{settle, Judgements};
use crate::refmodel::{RefModel, RefOut};
use crate::report::Report;
use serde_json::json;

pub struct StreamStats {
    pub steps: usize,
    pub judged: usize,
    pub skipped: usize,
    pub ok: bool,
}

/// `judge` fills the judgement list for one step and returns how many components it skipped.
/// `every`: judge every k-th step after the first `dense` steps (1 = all).
#[allow(clippy::too_many_arguments)]
pub fn run_stream(
    rep: &mut Report,
    property: &str,
    oracle: &str,
    p: &Params,
    inputs: &[In],
    dense: usize,
    every: usize,
    judge: &dyn Fn(&Params, &Out, &RefOut, &mut Judgements) -> usize,
) -> StreamStats {
    let mut st = StreamStats { steps: 0, judged: 0, skipped: 0, ok: true };
    let mut inst = match Inst::try_new(p) {
        Ok(i) => i,
        Err(_) => {
            // a constructor that rejects or panics on valid parameters is C11's claim
            rep.count("skipped.constructor_failed(see C11)");
            return st;
        }
    };
    // Every third stream runs on a *recycled* instance: it first consumes an unrelated prefix (the
    // head of this stream, rescaled and reversed) and is then reset(). The properties count t
    // "since construction/reset", so the outputs must be those of a fresh instance.
    let mut prefix: Vec<In> = Vec::new();
    if inputs.len() % 3 == 0 {
        let k = inputs.len().min(2 * p.max_period().min(64) + 3);
        prefix = inputs[..k].iter().rev().map(|x| match x {
            In::S(v) => In::S(v * 3.25 + 1.0),
            In::B(b) => In::B(crate::inst::Bar { v: b.v * 2.0 + 1.0, ..b.scale_prices(3.25) }),
        }).collect();
        for x in &prefix {
            let _ = inst.feed(x);
        }
        let _ = inst.reset();
        rep.count("streams_on_recycled_instance(reset_after_prefix)");
    }
    // Half of the streams also change the instance's identity mid-stream in ways the crate promises
    // are transparent (C05: a clone continues identically; C06: so does a restored copy): at one step
    // the instance is replaced by its clone, at another by deserialize(serialize(self)).
    let len = inputs.len();
    // (clone-swap position, serde-swap position): mid-stream for a quarter of the streams, right after
    // the first input(s) for another quarter (state that has just been seeded), before the first input
    // (or straight after the reset of a recycled instance) for another quarter
    let perturb_at: [usize; 2] = if len <= 4 {
        [usize::MAX, usize::MAX]
    } else if len % 4 == 0 {
        [len / 3, (2 * len) / 3 + 1]
    } else if len % 4 == 2 {
        [2, 1]
    } else if len % 8 == 3 {
        // identity changes at birth: restored before the first input (a saved configuration loaded later)
        [1, 0]
    } else if len % 8 == 7 {
        [0, 1]
    } else {
        [usize::MAX, usize::MAX]
    };
    // the clone step is a plain clone for half of them and a clone_from into a used instance for the rest
    let clone_kind: usize = if (len / 4) % 2 == 0 { 0 } else { 2 };
    let with_prefix = |upto: usize| -> serde_json::Value {
        let mut ops: Vec<serde_json::Value> = prefix.iter().map(|x| x.to_json()).collect();
        if !prefix.is_empty() {
            ops.push(json!({"op": "reset"}));
        }
        for (k, x) in inputs[..=upto].iter().enumerate() {
            if k == perturb_at[0] {
                ops.push(json!({"op": if clone_kind == 0 { "clone_swap" } else { "clone_from_swap" }}));
            }
            if k == perturb_at[1] {
                ops.push(json!({"op": "serde_swap"}));
            }
            ops.push(x.to_json());
        }
        serde_json::Value::Array(ops)
    };
    if perturb_at[0] != usize::MAX {
        rep.count("streams_with_mid_stream_clone_swap_and_serde_swap");
    }
    let mut rm = RefModel::new(p);
    let mut js: Judgements = Vec::with_capacity(4);
    let n = p.n();
    let tracing = every == 1 && rep.wants_trace(p.kind.name());
    let mut trace: Vec<serde_json::Value> = Vec::new();
    for (i, x) in inputs.iter().enumerate() {
        st.steps += 1;
        if i == perturb_at[0] {
            inst.perturb(clone_kind);
        }
        if i % 64 == 5 && len % 4 == 1 {
            // a quarter of the streams are also *observed* every 64 inputs through the read-only API
            inst.observe();
        }
        if i == perturb_at[1] {
            inst.perturb(1);
        }
        let r = rm.push(x);
        let out = match inst.feed(x) {
            Ok(o) => o,
            Err(pn) => {
                panic_violation(rep, property, oracle, p, with_prefix(i), &pn.0);
                st.ok = false;
                return st;
            }
        };
        let t = i + 1;
        if t > dense && every > 1 && t % every != 0 && t != inputs.len() {
            continue;
        }
        js.clear();
        let sk = judge(p, &out, &r, &mut js);
        st.skipped += sk;
        if sk > 0 {
            rep.add("skipped_ill_conditioned_or_degenerate", sk as u64);
        }
        st.judged += js.len();
        let ph = phase(t, n);
        rep.count(match ph {
            "warmup" => "phase.warmup",
            "full" => "phase.exactly_full",
            "wrapped1" => "phase.wrapped_once",
            _ => "phase.wrapped_twice_or_more",
        });
        let ok = settle(rep, property, oracle, p, ph, t, &js, &mut || with_prefix(i));
        if tracing && trace.len() < 150 {
            trace.push(trace_event(x, &out, &r, &js, sk, ok));
        }
        if !ok {
            st.ok = false;
            // one witness per stream is enough; keep counting cheaply by stopping this stream
            return st;
        }
        if rep.wants_sample() && t == inputs.len().min(n.saturating_add(2)) {
            rep.sample(json!({"indicator": p.label(), "t": t, "last_input": x.to_json(), "observed": out.to_json(),
                "reference": js.iter().map(|q| format!("{}={:e} tol={:e}", q.name, q.reference.to_f64(), q.tol)).collect::<Vec<_>>() }));
        }
    }
    if tracing && !trace.is_empty() {
        rep.traces.push(json!({"property": property, "kind": p.kind.name(), "params": p.to_json(), "events": trace}));
    }
    st
}

/// one fully described event for the offline checker
pub fn trace_event(x: &In, out: &Out, r: &RefOut, js: &Judgements, skipped: usize, ok: bool) -> serde_json::Value {
    use crate::inst::hexf;
    json!({
        "in": x.to_json(),
        "out": out.to_json(),
        "ref": (0..r.n).map(|i| json!([hexf(r.v[i].hi), hexf(r.v[i].lo)])).collect::<Vec<_>>(),
        "c": r.c.iter().map(|c| hexf(*c)).collect::<Vec<_>>(),
        "degenerate": r.degenerate, "near_tie": r.near_tie, "m": hexf(r.m), "scale": hexf(r.scale), "t": r.t,
        "judged": js.iter().map(|q| json!({"name": q.name, "component": q.component, "transform": q.transform, "ref": [hexf(q.reference.hi), hexf(q.reference.lo)], "tol": hexf(q.tol)})).collect::<Vec<_>>(),
        "skipped": skipped, "online_ok": ok,
    })
}

/// Replay `seq` from a fresh instance and a fresh reference and judge only the last output
/// (exhaustive enumerations call this for every sequence, so every prefix is judged exactly once).
pub fn check_last(
    rep: &mut Report,
    property: &str,
    oracle: &str,
    p: &Params,
    seq: &[In],
    judge: &dyn Fn(&Params, &Out, &RefOut, &mut Judgements) -> usize,
    js: &mut Judgements,
) -> Option<(Out, RefOut)> {
    let mut inst = Inst::new(p);
    let mut rm = RefModel::new(p);
    let mut last = None;
    for (i, x) in seq.iter().enumerate() {
        let r = rm.push(x);
        match inst.feed(x) {
            Ok(o) => last = Some((o, r)),
            Err(pn) => {
                panic_violation(rep, property, oracle, p, ops_json(&seq[..=i]), &pn.0);
                return None;
            }
        }
    }
    let (out, r) = last?;
    js.clear();
    let sk = judge(p, &out, &r, js);
    if sk > 0 {
        rep.add("skipped_ill_conditioned_or_degenerate", sk as u64);
    }
    let t = seq.len();
    settle(rep, property, oracle, p, phase(t, p.n()), t, js, &mut || ops_json(seq));
    Some((out, r))
}

/// every sequence of length 1..=depth over `alphabet` whose first element has index `first`
pub fn enum_sequences(alphabet: &[In], first: usize, depth: usize, f: &mut dyn FnMut(&[In])) {
    fn rec(alphabet: &[In], depth: usize, seq: &mut Vec<In>, f: &mut dyn FnMut(&[In])) {
        f(seq);
        if seq.len() < depth {
            for a in alphabet {
                seq.push(*a);
                rec(alphabet, depth, seq, f);
                seq.pop();
            }
        }
    }
    let mut seq = vec![alphabet[first]];
    rec(alphabet, depth, &mut seq, f);
}
