//! Sanitizer lane workload: a deterministic all-ops mix over the 22 indicators, small enough for
//! Miri and valgrind, run unchanged under ASan / TSan / Miri / memcheck / massif.
//! usage: sanlane <ops|threads|heap|all> [scale] [seed]
//! Uses the system allocator (no counting allocator: nothing here may hide leaks from the tools).

use std::sync::{Arc, Barrier};
use tamon::gen::{hostile_bar, hostile_scalar, BarGen, BarStyle};
use tamon::inst::{construct_raw, Bar, Ind, Inst, Kind, Op, Params, Res, ALL_KINDS};
use tamon::rng::Rng;

fn variant(kind: Kind, n: usize) -> Params {
    let mut p = Params::new1(kind, n);
    match kind {
        Kind::Macd | Kind::Ppo => p.p = [n, n + 1, 2],
        Kind::Slow => p.p = [n, 2, 0],
        Kind::Bb | Kind::Kc | Kind::Ce => p.k = 2.0,
        _ => {}
    }
    p
}

fn mix(h: &mut u64, r: &Res) {
    tamon::props::c05::digest_out(h, r);
}

/// every op kind, hostile inputs, clones dropped in different orders, serde round-trips
fn phase_ops(scale: usize, seed: u64) -> (u64, u64) {
    let mut h = 0xcbf29ce484222325u64;
    let mut ops_done = 0u64;
    for kind in ALL_KINDS {
        // Miri (scale 1-2) keeps to small windows; the native sanitizers also run wider ones
        let periods: &[usize] = if kind.n_periods() == 0 {
            &[1]
        } else if scale >= 5 {
            &[1, 2, 3, 5, 9, 16, 33, 64, 65, 130]
        } else {
            // ... plus one window of 40 for a handful of calls (a buffer that is allocated differently above
            // some size is at least constructed, fed through its first reads and cloned under the interpreter)
            &[1, 2, 3, 5, 9, 40]
        };
        for &n in periods {
            let p = variant(kind, n);
            let mut rng = Rng::derive(seed, kind as u64, n as u64);
            let mut inst = Inst::new(&p);
            let mut clones: Vec<Inst> = Vec::new();
            let steps = if scale < 5 && n == 40 { 12 } else { (3 * p.max_period() + 3).max(8) * scale };
            for i in 0..steps {
                let hostile = i % 5 == 4;
                let op = if kind.has_scalar() && i % 2 == 0 {
                    Op::NextF(if hostile { hostile_scalar(&mut rng) } else { rng.uniform(1.0, 100.0) })
                } else {
                    let b = if hostile { hostile_bar(&mut rng) } else { let x = rng.uniform(1.0, 100.0); Bar { o: x, h: x + rng.f(), l: x - rng.f(), c: x, v: rng.f() * 10.0 } };
                    if i % 7 == 3 { Op::NextBar2(b) } else { Op::NextBar(b) }
                };
                mix(&mut h, &inst.apply(&op));
                for c in clones.iter_mut() {
                    mix(&mut h, &c.apply(&op));
                }
                ops_done += 1 + clones.len() as u64;
                match i % 11 {
                    2 => {
                        if let Ok(c) = inst.try_clone() {
                            clones.push(c);
                        }
                    }
                    5 => mix(&mut h, &inst.apply(&Op::Display)),
                    6 => mix(&mut h, &inst.apply(&Op::Debug)),
                    7 => mix(&mut h, &inst.apply(&Op::SerDeSwap)),
                    8 => {
                        // drop clones in alternating order (front / back)
                        if !clones.is_empty() {
                            if i % 2 == 0 {
                                clones.remove(0);
                            } else {
                                clones.pop();
                            }
                        }
                    }
                    9 => mix(&mut h, &inst.apply(&Op::Reset)),
                    10 => mix(&mut h, &inst.apply(&Op::Period)),
                    _ => {}
                }
            }
            // drop the original before its clones
            drop(inst);
            for mut c in clones {
                mix(&mut h, &c.apply(&Op::Display));
            }
        }
    }
    (h, ops_done)
}

/// distinct instances per thread + one Arc-shared read-only set
fn phase_threads(scale: usize, seed: u64, threads: usize) -> (u64, u64) {
    let shared: Arc<Vec<Box<dyn Ind>>> = Arc::new(ALL_KINDS.iter().map(|k| construct_raw(&variant(*k, 3)).unwrap()).collect());
    let barrier = Arc::new(Barrier::new(threads));
    let hs: Vec<_> = (0..threads)
        .map(|w| {
            let shared = Arc::clone(&shared);
            let barrier = Arc::clone(&barrier);
            std::thread::spawn(move || {
                let mut h = 0u64;
                let mut n_ops = 0u64;
                let mut insts: Vec<Inst> = ALL_KINDS.iter().map(|k| Inst::new(&variant(*k, 1 + (w * 3 + *k as usize) % 11))).collect();
                let mut g = BarGen::new(BarStyle::Mixed, 1.0, seed ^ w as u64);
                barrier.wait();
                for step in 0..(6 * scale) {
                    let b = g.next();
                    for inst in insts.iter_mut() {
                        let r = if inst.kind().has_scalar() && step % 2 == 0 { inst.apply(&Op::NextF(b.c)) } else { inst.apply(&Op::NextBar(b)) };
                        mix(&mut h, &r);
                        n_ops += 1;
                    }
                    let k = (step + w) % shared.len();
                    let s = shared[k].display();
                    let c = shared[k].clone_box(); // cloning a shared instance from many threads at once
                    h ^= s.len() as u64 ^ c.display().len() as u64;
                    if step % 3 == 0 {
                        std::thread::yield_now();
                    }
                }
                // hand EVERY instance to a brand-new thread that has never constructed an indicator, use it
                // there, clone it there, restore it from bytes there, and take it back
                let moved: Vec<Inst> = insts.drain(..).collect();
                let (back, hh, nn) = std::thread::spawn(move || {
                    let mut hh = 0u64;
                    let mut nn = 0u64;
                    let mut out = Vec::new();
                    for mut m in moved {
                        let n = m.params.max_period();
                        for i in 0..(2 * n + 3) {
                            let b = Bar { o: 5.0, h: 6.0 + i as f64, l: 4.0, c: 5.0 + (i % 3) as f64, v: 1.0 + i as f64 };
                            let r = if m.kind().has_scalar() && i % 2 == 0 { m.apply(&Op::NextF(b.c)) } else { m.apply(&Op::NextBar(b)) };
                            mix(&mut hh, &r);
                            nn += 1;
                        }
                        if let Ok(mut c) = m.try_clone() {
                            mix(&mut hh, &c.apply(&Op::NextBar(Bar::flat(5.0, 1.0))));
                        }
                        mix(&mut hh, &m.apply(&Op::SerDeSwap));
                        mix(&mut hh, &m.apply(&Op::NextBar(Bar::flat(7.0, 2.0))));
                        nn += 3;
                        out.push(m);
                    }
                    (out, hh, nn)
                })
                .join()
                .unwrap();
                drop(back);
                h ^= hh;
                n_ops += nn;
                (h, n_ops)
            })
        })
        .collect();
    let mut h = 0u64;
    let mut n = 0u64;
    for t in hs {
        let (a, b) = t.join().unwrap();
        h = h.rotate_left(5) ^ a;
        n += b;
    }
    (h, n)
}

/// long stream into every indicator; peak heap must not depend on `len` (massif compares two lengths)
fn phase_heap(len: usize, seed: u64) -> (u64, u64) {
    let mut h = 0u64;
    let mut insts: Vec<Inst> = ALL_KINDS.iter().map(|k| Inst::new(&variant(*k, 7))).collect();
    let mut g = BarGen::new(BarStyle::Mixed, 1.0, seed);
    for i in 0..len {
        let b = if i % 2 == 0 { g.next() } else { Bar::flat(100.0 + i as f64, 1.0) }; // monotone component
        for inst in insts.iter_mut() {
            let r = if inst.kind().has_scalar() { inst.next_f64(b.c) } else { inst.next_bar(&b) };
            if let Ok(o) = r {
                h ^= o.v[0].to_bits();
            }
        }
    }
    (h, (len * insts.len()) as u64)
}

fn main() {
    tamon::inst::install_quiet_panic_hook();
    let args: Vec<String> = std::env::args().collect();
    let phase = args.get(1).map(|s| s.as_str()).unwrap_or("all");
    let scale: usize = args.get(2).and_then(|s| s.parse().ok()).unwrap_or(1);
    let seed: u64 = args.get(3).and_then(|s| s.parse().ok()).unwrap_or(1);
    let threads: usize = args.get(4).and_then(|s| s.parse().ok()).unwrap_or(4);
    let mut total = 0u64;
    if phase == "ops" || phase == "all" {
        let (h, n) = phase_ops(scale, seed);
        println!("sanlane ops digest={:#018x} client_ops={}", h, n);
        total += n;
    }
    if phase == "threads" || phase == "all" {
        let (h, n) = phase_threads(scale, seed, threads);
        println!("sanlane threads digest={:#018x} client_ops={} threads={}", h, n, threads);
        total += n;
    }
    if phase == "heap" {
        let (h, n) = phase_heap(scale, seed);
        println!("sanlane heap digest={:#018x} client_ops={}", h, n);
        total += n;
    }
    let panics = tamon::inst::TOTAL_PANICS.load(std::sync::atomic::Ordering::Relaxed);
    println!("sanlane done total_client_ops={} panics={}", total, panics);
    if panics > 0 {
        std::process::exit(3);
    }
}
