import json,sys
d=json.load(open(sys.argv[1])); r=d['report']
print('wall',round(d['wall_s'],2),'calls',d['client_calls_observed'],'evals',r['evaluations'],'distinct',r['distinct_nontrivial'],'panics',d['panics_observed'])
if '-c' in sys.argv: print(json.dumps(r['counters'],indent=0))
print(json.dumps(r['worst_error_over_tolerance'],indent=0))
for v in r['violations'][:int(sys.argv[sys.argv.index('-n')+1]) if '-n' in sys.argv else 8]: print('VIOL',v['sig'],'|',v['detail'])
print('inconclusive',r['inconclusive']); print('sigs',r['violation_signature_counts'])
