//! C19 — trait-surface probe. For every (type, bound) pair of the documented surface this prints
//! `cell <type> | <bound> | true/false`. It compiles whether or not an impl exists: the inherent
//! associated const shadows the blanket trait const only when the bound holds.

#![allow(dead_code)]

use ta::errors::TaError;
use ta::indicators::*;
use ta::{Close, DataItem, High, Low, Next, Open, Period, Reset, Volume};

macro_rules! impls {
    ($ty:ty : $($bound:tt)+) => {{
        struct Probe<T: ?Sized>(core::marker::PhantomData<T>);
        trait Fallback { const IMPLS: bool = false; }
        impl<T: ?Sized> Fallback for Probe<T> {}
        impl<T: ?Sized + $($bound)+> Probe<T> { const IMPLS: bool = true; }
        <Probe<$ty>>::IMPLS
    }};
}

macro_rules! cell {
    ($ty:ty, $name:expr, $($bound:tt)+) => {
        println!("cell {} | {} | {}", stringify!($ty), $name, impls!($ty: $($bound)+));
    };
}

// user types providing exactly the price traits an indicator is documented to need
pub struct OnlyClose(pub f64);
impl Close for OnlyClose { fn close(&self) -> f64 { self.0 } }
pub struct OnlyLow(pub f64);
impl Low for OnlyLow { fn low(&self) -> f64 { self.0 } }
pub struct OnlyHigh(pub f64);
impl High for OnlyHigh { fn high(&self) -> f64 { self.0 } }
pub struct Hlc(pub f64, pub f64, pub f64);
impl High for Hlc { fn high(&self) -> f64 { self.0 } }
impl Low for Hlc { fn low(&self) -> f64 { self.1 } }
impl Close for Hlc { fn close(&self) -> f64 { self.2 } }
pub struct Hlcv(pub f64, pub f64, pub f64, pub f64);
impl High for Hlcv { fn high(&self) -> f64 { self.0 } }
impl Low for Hlcv { fn low(&self) -> f64 { self.1 } }
impl Close for Hlcv { fn close(&self) -> f64 { self.2 } }
impl Volume for Hlcv { fn volume(&self) -> f64 { self.3 } }
pub struct Cv(pub f64, pub f64);
impl Close for Cv { fn close(&self) -> f64 { self.0 } }
impl Volume for Cv { fn volume(&self) -> f64 { self.1 } }
/// a full user bar (all five traits), borrowed for a non-'static lifetime
pub struct Full<'x>(pub &'x [f64; 5]);
impl<'x> Open for Full<'x> { fn open(&self) -> f64 { self.0[0] } }
impl<'x> High for Full<'x> { fn high(&self) -> f64 { self.0[1] } }
impl<'x> Low for Full<'x> { fn low(&self) -> f64 { self.0[2] } }
impl<'x> Close for Full<'x> { fn close(&self) -> f64 { self.0[3] } }
impl<'x> Volume for Full<'x> { fn volume(&self) -> f64 { self.0[4] } }

macro_rules! common {
    ($ty:ty, $min:ty) => {
        cell!($ty, "Clone", Clone);
        cell!($ty, "Debug", std::fmt::Debug);
        cell!($ty, "Display", std::fmt::Display);
        cell!($ty, "Default", Default);
        cell!($ty, "Reset", Reset);
        cell!($ty, "Send", Send);
        cell!($ty, "Sync", Sync);
        cell!($ty, "Unpin", Unpin);
        cell!($ty, "'static", 'static);
        cell!($ty, "Next<&DataItem>", for<'a> Next<&'a DataItem>);
        cell!($ty, "Next<&UserBar(all five traits, borrowed)>", for<'a, 'x> Next<&'a Full<'x>>);
        cell!($ty, concat!("Next<&", stringify!($min), "> (only the traits it needs)"), for<'a> Next<&'a $min>);
        #[cfg(feature = "serde")]
        cell!($ty, "Serialize+Deserialize", serde::Serialize + for<'de> serde::Deserialize<'de>);
    };
}
macro_rules! scalar {
    ($ty:ty) => {
        cell!($ty, "Next<f64>", Next<f64>);
    };
}
macro_rules! period {
    ($ty:ty) => {
        cell!($ty, "Period", Period);
    };
}
macro_rules! output {
    ($ty:ty) => {
        cell!($ty, "Clone", Clone);
        cell!($ty, "Debug", std::fmt::Debug);
        cell!($ty, "PartialEq", PartialEq);
    };
}

fn main() {
    println!("probe serde={}", cfg!(feature = "serde"));
    common!(ExponentialMovingAverage, OnlyClose);
    common!(SimpleMovingAverage, OnlyClose);
    common!(WeightedMovingAverage, OnlyClose);
    common!(StandardDeviation, OnlyClose);
    common!(MeanAbsoluteDeviation, OnlyClose);
    common!(RelativeStrengthIndex, OnlyClose);
    common!(MovingAverageConvergenceDivergence, OnlyClose);
    common!(PercentagePriceOscillator, OnlyClose);
    common!(EfficiencyRatio, OnlyClose);
    common!(BollingerBands, OnlyClose);
    common!(RateOfChange, OnlyClose);
    common!(Minimum, OnlyLow);
    common!(Maximum, OnlyHigh);
    common!(FastStochastic, Hlc);
    common!(SlowStochastic, Hlc);
    common!(TrueRange, Hlc);
    common!(AverageTrueRange, Hlc);
    common!(KeltnerChannel, Hlc);
    common!(ChandelierExit, Hlc);
    common!(CommodityChannelIndex, Hlc);
    common!(MoneyFlowIndex, Hlcv);
    common!(OnBalanceVolume, Cv);

    // all but CCI, ChandelierExit, MFI, OBV implement Next<f64>
    scalar!(ExponentialMovingAverage);
    scalar!(SimpleMovingAverage);
    scalar!(WeightedMovingAverage);
    scalar!(StandardDeviation);
    scalar!(MeanAbsoluteDeviation);
    scalar!(RelativeStrengthIndex);
    scalar!(MovingAverageConvergenceDivergence);
    scalar!(PercentagePriceOscillator);
    scalar!(EfficiencyRatio);
    scalar!(BollingerBands);
    scalar!(RateOfChange);
    scalar!(Minimum);
    scalar!(Maximum);
    scalar!(FastStochastic);
    scalar!(SlowStochastic);
    scalar!(TrueRange);
    scalar!(AverageTrueRange);
    scalar!(KeltnerChannel);

    // single-period indicators implement Period
    period!(ExponentialMovingAverage);
    period!(SimpleMovingAverage);
    period!(WeightedMovingAverage);
    period!(StandardDeviation);
    period!(MeanAbsoluteDeviation);
    period!(RelativeStrengthIndex);
    period!(Minimum);
    period!(Maximum);
    period!(FastStochastic);
    period!(AverageTrueRange);
    period!(CommodityChannelIndex);
    period!(EfficiencyRatio);
    period!(BollingerBands);
    period!(ChandelierExit);
    period!(KeltnerChannel);
    period!(RateOfChange);
    period!(MoneyFlowIndex);

    // output structs
    output!(BollingerBandsOutput);
    output!(KeltnerChannelOutput);
    output!(MovingAverageConvergenceDivergenceOutput);
    output!(PercentagePriceOscillatorOutput);
    output!(ChandelierExitOutput);
    cell!(MovingAverageConvergenceDivergenceOutput, "Into<(f64,f64,f64)>", Into<(f64, f64, f64)>);
    cell!(PercentagePriceOscillatorOutput, "Into<(f64,f64,f64)>", Into<(f64, f64, f64)>);
    cell!(ChandelierExitOutput, "Into<(f64,f64)>", Into<(f64, f64)>);
    // the conversions are documented as From impls on the tuple side (Into follows from From, not vice versa)
    println!("cell (f64,f64,f64) | From<MovingAverageConvergenceDivergenceOutput> | {}", impls!((f64, f64, f64): From<MovingAverageConvergenceDivergenceOutput>));
    println!("cell (f64,f64,f64) | From<PercentagePriceOscillatorOutput> | {}", impls!((f64, f64, f64): From<PercentagePriceOscillatorOutput>));
    println!("cell (f64,f64) | From<ChandelierExitOutput> | {}", impls!((f64, f64): From<ChandelierExitOutput>));

    // error type
    cell!(TaError, "std::error::Error", std::error::Error);
    cell!(TaError, "Clone", Clone);
    cell!(TaError, "Eq", Eq);
    cell!(TaError, "Send", Send);
    cell!(TaError, "Sync", Sync);
    cell!(TaError, "Debug+Display", std::fmt::Debug + std::fmt::Display);

    // DataItem
    cell!(DataItem, "Clone+Debug+PartialEq", Clone + std::fmt::Debug + PartialEq);
    cell!(DataItem, "Open+High+Low+Close+Volume", Open + High + Low + Close + Volume);
    cell!(DataItem, "Send+Sync+Unpin+'static", Send + Sync + Unpin + 'static);
    #[cfg(feature = "serde")]
    cell!(DataItem, "Serialize+Deserialize", serde::Serialize + for<'de> serde::Deserialize<'de>);

    // output type of Next (scalar indicators return f64; composites their output struct)
    println!("probe done");
}
