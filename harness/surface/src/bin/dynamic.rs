//! C19 — dynamic half: every documented impl is exercised once through a generic function with
//! that bound: moved into a thread and back, shared by Arc across threads while Display runs,
//! pinned, boxed as dyn Any, formatted, defaulted, reset, cloned. Requires the impls to exist
//! (the static table is decided by `probe`, which compiles regardless).

use std::any::Any;
use std::fmt::{Debug, Display};
use std::pin::Pin;
use std::sync::Arc;
use ta::indicators::*;
use ta::{DataItem, Next, Reset};

fn exercise<T>(name: &str) -> usize
where
    T: Clone + Debug + Display + Default + Reset + Send + Sync + Unpin + 'static + for<'a> Next<&'a DataItem>,
{
    let item = DataItem::builder().open(10.0).high(12.0).low(8.0).close(9.5).volume(100.0).build().unwrap();
    let mut ops = 0;
    let mut x = T::default();
    let _ = x.next(&item);
    let shown = format!("{}", x);
    let dbg = format!("{:?}", x);
    assert!(!shown.is_empty() && !dbg.is_empty(), "{}", name);
    ops += 3;
    // move into a thread and back
    let h = std::thread::spawn(move || {
        let _ = x.next(&DataItem::builder().open(1.0).high(2.0).low(1.0).close(2.0).volume(1.0).build().unwrap());
        x
    });
    let mut x = h.join().unwrap();
    ops += 2;
    // share by Arc across threads while Display runs
    let shared = Arc::new(x.clone());
    let hs: Vec<_> = (0..4)
        .map(|_| {
            let s = Arc::clone(&shared);
            std::thread::spawn(move || format!("{}", s))
        })
        .collect();
    for h in hs {
        assert_eq!(h.join().unwrap(), shown, "{}", name);
        ops += 1;
    }
    // pin, box as dyn Any, downcast, reset, clone
    let mut pinned = Box::pin(x.clone());
    let inner: &mut T = Pin::get_mut(pinned.as_mut()); // needs Unpin
    inner.reset();
    let boxed: Box<dyn Any + Send + Sync> = Box::new(x.clone());
    assert!(boxed.downcast_ref::<T>().is_some(), "{}", name);
    x.reset();
    assert_eq!(format!("{}", x), shown, "{}: Display changed by reset", name);
    ops += 5;
    ops
}

fn main() {
    let mut total = 0;
    macro_rules! ex {
        ($($t:ty),*) => { $( total += exercise::<$t>(stringify!($t)); println!("exercised {}", stringify!($t)); )* };
    }
    ex!(
        ExponentialMovingAverage, SimpleMovingAverage, WeightedMovingAverage, StandardDeviation, MeanAbsoluteDeviation,
        RelativeStrengthIndex, Minimum, Maximum, FastStochastic, SlowStochastic, TrueRange, AverageTrueRange,
        MovingAverageConvergenceDivergence, PercentagePriceOscillator, CommodityChannelIndex, EfficiencyRatio,
        BollingerBands, ChandelierExit, KeltnerChannel, RateOfChange, MoneyFlowIndex, OnBalanceVolume
    );
    // tuple conversions and the error type
    let (a, b, c): (f64, f64, f64) = MovingAverageConvergenceDivergence::default().next(1.0).into();
    let (d, e, f): (f64, f64, f64) = PercentagePriceOscillator::default().next(1.0).into();
    let item = DataItem::builder().open(10.0).high(12.0).low(8.0).close(9.5).volume(100.0).build().unwrap();
    let (g, h): (f64, f64) = ChandelierExit::default().next(&item).into();
    assert!([a, b, c, d, e, f, g, h].iter().all(|x| x.is_finite()));
    let err: Box<dyn std::error::Error + Send + Sync> = Box::new(ta::errors::TaError::InvalidParameter);
    assert!(!err.to_string().is_empty());
    total += 4;
    println!("dynamic ops {}", total);
}
