#!/bin/sh
# Build every flavour of the harness once, offline, from files on disk only. The checks rebuild
# incrementally (cargo fingerprints /repo's sources), so this only warms the caches.
set -e
cd /verif/harness
export CARGO_NET_OFFLINE=true
unset RUSTFLAGS
cargo build --release --offline -p tamon -p sanlane
cargo build --profile plain --offline -p tamon
cargo build --release --offline -p ta --target-dir target-surface
cargo build --release --offline -p surface --bin probe --target-dir target-surface
cargo build --release --offline -p surface --bin probe --features serde --target-dir target-surface
cargo build --release --offline -p surface --bin dynamic --target-dir target-surface
RUSTFLAGS="-Zsanitizer=address -Cforce-frame-pointers=yes" cargo +nightly build --release --offline --target x86_64-unknown-linux-gnu --target-dir target-asan -p sanlane
RUSTFLAGS="-Zsanitizer=thread" cargo +nightly build --release --offline -Zbuild-std --target x86_64-unknown-linux-gnu --target-dir target-tsan -p sanlane
MIRIFLAGS="-Zmiri-disable-isolation" cargo +nightly miri run --offline --target-dir target-miri -p sanlane -- threads 1 1 2
echo "setup done"
