#!/usr/bin/env python3
"""Independent offline oracle: re-derives, with exact rational arithmetic (fractions.Fraction) and
its own, separately written formulas, the reference value of every judged event in the sampled
traces written by `tamon run ... --traces F`, and compares

  (1) its reference with the online monitor's double-double reference (must agree to within a
      millionth of the comparison tolerance: the online reference is then far more accurate than
      the tolerance it is used at), and
  (2) its verdict |observed - reference| <= tol with the online verdict.

A disagreement is a HARNESS error (exit 2, ORACLE-DISAGREEMENT), never a violation: it means one of
the two independently written reference models misreads the property statement.

usage: recheck.py <traces.jsonl>     prints a JSON summary on stdout
"""
import json
import struct
import sys
from fractions import Fraction as F


def hx(s):
    bits = int(s.split("|")[0], 16)
    return struct.unpack(">d", struct.pack(">Q", bits))[0]


def fr(x):
    return F(x)  # exact for finite floats


def pair(p):
    return fr(hx(p[0])) + fr(hx(p[1]))


class Model:
    """exact reference, written from the property statements"""

    def __init__(self, kind, periods, k):
        self.kind, self.p, self.k = kind, periods, k
        self.hist = []  # inputs: ('s', x) or ('b', o,h,l,c,v), as Fractions
        self.ema = {}   # name -> Fraction or None

    def n(self):
        return self.p[0] if self.p else 1

    def _ema(self, name, period, x):
        a = F(2, period + 1)
        cur = self.ema.get(name)
        cur = x if cur is None else a * x + (1 - a) * cur
        self.ema[name] = cur
        return cur

    # documented scalar series
    def series(self):
        out = []
        for e in self.hist:
            if e[0] == 's':
                out.append(e[1])
            elif self.kind == 'MIN':
                out.append(e[3])
            elif self.kind == 'MAX':
                out.append(e[2])
            else:
                out.append(e[4])
        return out

    def push(self, e):
        """returns dict name -> exact reference (or None when the statement gives no value)"""
        self.hist.append(e)
        kind, n, k = self.kind, self.n(), self.k
        s = self.series()
        t = len(s)
        w = s[-n:]
        x = s[-1]
        isbar = e[0] == 'b'
        if isbar:
            _, o, h, l, c, v = e
            tp = (h + l + c) / 3
        if kind == 'SMA':
            return {'value': sum(w) / len(w)}
        if kind == 'WMA':
            m = len(w)
            return {'value': sum((i + 1) * y for i, y in enumerate(w)) / F(m * (m + 1), 2)}
        if kind in ('SD', 'BB'):
            mean = sum(w) / len(w)
            var = sum((y - mean) ** 2 for y in w) / len(w)
            if kind == 'SD':
                return {'variance': var}
            return {'average': mean, 'halfwidth_sq': k * k * var, 'centre': mean}
        if kind == 'MAD':
            mean = sum(w) / len(w)
            return {'value': sum(abs(y - mean) for y in w) / len(w)}
        if kind == 'MIN':
            return {'value': min(w)}
        if kind == 'MAX':
            return {'value': max(w)}
        if kind == 'EMA':
            return {'value': self._ema('e', n, x)}
        if kind in ('TR', 'ATR', 'KC', 'CE'):
            prev = self.hist[-2] if len(self.hist) > 1 else None
            if isbar:
                if prev is None:
                    tr = h - l
                else:
                    pc = prev[4] if prev[0] == 'b' else prev[1]
                    tr = max(h - l, abs(h - pc), abs(l - pc))
            else:
                tr = F(0) if prev is None else abs(x - (prev[4] if prev[0] == 'b' else prev[1]))
            if kind == 'TR':
                return {'value': tr}
            atr = self._ema('atr', n, tr)
            if kind == 'ATR':
                return {'value': atr}
            if kind == 'KC':
                avg = self._ema('avg', n, tp if isbar else x)
                return {'average': avg, 'upper': avg + k * atr, 'lower': avg - k * atr}
            highs = [b[2] for b in self.hist[-n:]]
            lows = [b[3] for b in self.hist[-n:]]
            return {'long': max(highs) - k * atr, 'short': min(lows) + k * atr}
        if kind == 'MACD':
            f = self._ema('f', self.p[0], x)
            sl = self._ema('s', self.p[1], x)
            line = f - sl
            sig = self._ema('g', self.p[2], line)
            return {'macd': line, 'signal': sig, 'histogram': line - sig}
        if kind == 'PPO':
            f = self._ema('f', self.p[0], x)
            sl = self._ema('s', self.p[1], x)
            if sl == 0:
                return {}
            line = 100 * (f - sl) / sl
            sig = self._ema('g', self.p[2], line)
            return {'ppo': line, 'signal': sig, 'histogram': line - sig}
        if kind == 'RSI':
            if t == 1:
                up, dn = F(1, 10), F(1, 10)
            else:
                d = x - s[-2]
                up, dn = (d, F(0)) if d > 0 else (F(0), -d)
            u = self._ema('u', n, up)
            dd_ = self._ema('d', n, dn)
            if u + dd_ == 0:
                return {}
            return {'value': 100 * u / (u + dd_)}
        if kind in ('FAST', 'SLOW'):
            if isbar:
                hi = max(b[2] for b in self.hist[-n:])
                lo = min(b[3] for b in self.hist[-n:])
            else:
                hi, lo = max(w), min(w)
            kf = F(50) if hi == lo else 100 * (x - lo) / (hi - lo)
            if kind == 'FAST':
                return {'value': kf}
            return {'value': self._ema('slow', self.p[1], kf)}
        if kind == 'ROC':
            prev = s[-n - 1] if t > n else s[0]
            if prev == 0:
                return {}
            return {'value': 100 * (x - prev) / prev}
        if kind == 'ER':
            if t == 1:
                return {'value': F(1)}
            path = s[-(n + 1):]
            vol = sum(abs(path[i + 1] - path[i]) for i in range(len(path) - 1))
            if vol == 0:
                return {}
            return {'value': abs(path[-1] - path[0]) / vol}
        if kind == 'CCI':
            tps = [(b[2] + b[3] + b[4]) / 3 for b in self.hist[-n:]]
            mean = sum(tps) / len(tps)
            mad = sum(abs(y - mean) for y in tps) / len(tps)
            if mad == 0:
                return {'value': F(0)}
            return {'value': (tps[-1] - mean) / (F(15, 1000) * mad)}
        if kind == 'MFI':
            if t == 1:
                return {'value': F(50)}
            bars = self.hist[-(n + 1):]
            tps = [(b[2] + b[3] + b[4]) / 3 for b in bars]
            pmf = nmf = F(0)
            for i in range(1, len(bars)):
                flow = tps[i] * bars[i][5]
                if tps[i] > tps[i - 1]:
                    pmf += flow
                elif tps[i] < tps[i - 1]:
                    nmf += flow
            if pmf + nmf == 0:
                return {}
            return {'value': 100 * pmf / (pmf + nmf)}
        if kind == 'OBV':
            obv = F(0)
            pc = F(0)
            for b in self.hist:
                if b[4] > pc:
                    obv += b[5]
                elif b[4] < pc:
                    obv -= b[5]
                pc = b[4]
            return {'value': obv}
        return {}


def transform(name, out):
    if name == 'square':
        return fr(out[0]) ** 2
    if name == 'halfwidth_sq':
        return ((fr(out[1]) - fr(out[2])) / 2) ** 2
    if name == 'mid':
        return (fr(out[1]) + fr(out[2])) / 2
    return None


def main():
    path = sys.argv[1]
    summary = {"traces": 0, "events": 0, "judged_items_rechecked": 0, "reference_disagreements": 0, "verdict_disagreements": 0,
               "worst_reference_gap_over_tolerance": 0.0, "kinds": {}, "examples": []}
    for line in open(path):
        tr = json.loads(line)
        kind = tr["kind"]
        periods = [int(x) for x in tr["params"]["periods"]]
        k = fr(hx(tr["params"]["multiplier"])) if tr["params"]["multiplier"] else F(0)
        model = Model(kind, periods, k)
        summary["traces"] += 1
        summary["kinds"][kind] = summary["kinds"].get(kind, 0) + 1
        for ev in tr["events"]:
            op = ev["in"]
            if op["op"] == "next":
                e = ('s', fr(hx(op["x"])))
            else:
                o, h, l, c, v = [fr(hx(z)) for z in op["ohlcv"]]
                e = ('b', o, h, l, c, v)
            refs = model.push(e)
            summary["events"] += 1
            out = [hx(z) for z in ev["out"]]
            if any(x != x or x in (float("inf"), float("-inf")) for x in out):
                continue
            for q in ev["judged"]:
                name = q["name"]
                if name == "band_orientation":
                    # self-referential item: the signed half-width must carry the sign of the multiplier
                    hw = (fr(out[1]) - fr(out[2])) / 2
                    summary["judged_items_rechecked"] += 1
                    if (hw * (-1 if k < 0 else 1) != abs(hw)) and ev["online_ok"]:
                        summary["verdict_disagreements"] += 1
                    continue
                if name not in refs:
                    summary["reference_disagreements"] += 1
                    summary["examples"].append({"kind": kind, "t": ev["t"], "item": name, "problem": "online judged an item the offline model has no value for"})
                    continue
                tol = fr(hx(q["tol"]))
                ref_on = pair(q["ref"])
                ref_off = refs[name]
                gap = abs(ref_on - ref_off)
                summary["judged_items_rechecked"] += 1
                allowed = tol / 10**6 + abs(ref_off) / 10**25
                if tol > 0:
                    summary["worst_reference_gap_over_tolerance"] = max(summary["worst_reference_gap_over_tolerance"], float(gap / tol))
                if gap > allowed:
                    summary["reference_disagreements"] += 1
                    if len(summary["examples"]) < 5:
                        summary["examples"].append({"kind": kind, "params": tr["params"], "t": ev["t"], "item": name, "online_ref": float(ref_on), "offline_ref": float(ref_off), "gap": float(gap), "tol": float(tol)})
                    continue
                got = transform(q["transform"], out)
                if got is None:
                    got = fr(out[q["component"]])
                if q["transform"] == "square" and out[0] < 0:
                    off_ok = False
                else:
                    off_ok = abs(got - ref_off) <= tol
                # the online verdict is per event (all items); compare per item only when it failed
                if not off_ok and ev["online_ok"]:
                    # borderline cases within 1e-6 tol of the boundary are not disagreements
                    if abs(abs(got - ref_off) - tol) > tol / 10**6:
                        summary["verdict_disagreements"] += 1
                        if len(summary["examples"]) < 5:
                            summary["examples"].append({"kind": kind, "t": ev["t"], "item": name, "problem": "offline says violated, online said ok", "err": float(abs(got - ref_off)), "tol": float(tol)})
    print(json.dumps(summary))
    if summary["reference_disagreements"] or summary["verdict_disagreements"]:
        print("ORACLE-DISAGREEMENT", file=sys.stderr)
        sys.exit(2)


if __name__ == "__main__":
    main()
