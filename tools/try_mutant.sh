#!/bin/sh
# usage: try_mutant.sh <patch.diff> <tier> <Cxx> [Cxx...]
# Applies the patch to the repository working tree (VERIF_REPO, default /repo), runs the named checks from
# the /verif tree this script lives in, and ALWAYS restores the repository.
PATCH="$(readlink -f "$1")"; TIER="$2"; shift 2
REPO="${VERIF_REPO:-/repo}"
V="$(dirname "$(dirname "$(readlink -f "$0")")")"
export VERIF_EVIDENCE_DIR=/tmp/verif_trial/evidence VERIF_REPLAY_DIR=/tmp/verif_trial/replays; mkdir -p $VERIF_EVIDENCE_DIR $VERIF_REPLAY_DIR
cd "$REPO" || exit 9
if ! git diff --quiet; then echo "refusing: $REPO has uncommitted changes"; exit 9; fi
restore() { git -C "$REPO" checkout -- . ; }
trap restore EXIT INT TERM
git apply "$PATCH" || { echo "patch does not apply"; exit 9; }
for c in "$@"; do
  out=$(cd "$V" && VERIF_SEED=${VERIF_SEED:-1} ./check "$c" "$TIER" 2>&1)
  code=$?
  echo "$c exit=$code"
  echo "$out" | grep -E '^(VIOLATION|  signature|INCONCLUSIVE|KNOWN-FINDING|FAILED)' | head -${LINES_MAX:-12}
done
