#!/bin/sh
# usage: try_mutant.sh <patch.diff> <tier> <Cxx> [Cxx...]
# Applies the patch to /repo's working tree, runs the named checks, and ALWAYS restores /repo.
# Prints one line per check: "<Cxx> exit=<code>" followed by the VIOLATION / INCONCLUSIVE lines.
PATCH="$(readlink -f "$1")"; TIER="$2"; shift 2
cd /repo || exit 9
if ! git diff --quiet; then echo "refusing: /repo has uncommitted changes"; exit 9; fi
restore() { git -C /repo checkout -- . ; }
trap restore EXIT INT TERM
git apply "$PATCH" || { echo "patch does not apply"; exit 9; }
for c in "$@"; do
  out=$(cd /verif && VERIF_SEED=${VERIF_SEED:-1} ./check "$c" "$TIER" 2>&1)
  code=$?
  echo "$c exit=$code"
  echo "$out" | grep -E '^(VIOLATION|  signature|INCONCLUSIVE|KNOWN-FINDING|FAILED)' | head -${LINES_MAX:-12}
done
