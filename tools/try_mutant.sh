#!/bin/sh
# usage: try_mutant.sh <patch.diff> <tier> <Cxx> [Cxx...]
# Runs the named checks against a PRIVATE copy of the repository with the patch applied:
#   /tmp/trial/repo   git worktree of /repo's HEAD (reset and re-patched on every call)
#   /tmp/trial/verif  copy of this /verif tree whose harness points at /tmp/trial/repo (own build caches)
# so /repo itself, /verif/evidence and /verif/replays are never touched by a trial.
PATCH="$(readlink -f "$1")"; TIER="$2"; shift 2
V="$(dirname "$(dirname "$(readlink -f "$0")")")"
T=${TRIAL_DIR:-/tmp/trial}
mkdir -p $T
if [ ! -d $T/repo/.git ] && [ ! -f $T/repo/.git ]; then git -C /repo worktree add -q --detach $T/repo HEAD || exit 9; fi
git -C $T/repo checkout -q --detach "$(git -C /repo rev-parse HEAD)" && git -C $T/repo checkout -- . && git -C $T/repo clean -fdq
cp /repo/Cargo.lock $T/repo/ 2>/dev/null
rsync -a --delete --exclude '.git' --exclude 'target' --exclude 'target-*' --exclude 'replays' --exclude 'evidence' "$V"/ $T/verif/
sed -i "s|path = \"/repo\"|path = \"$T/repo\"|" $T/verif/harness/*/Cargo.toml
export VERIF_REPO=$T/repo VERIF_EVIDENCE_DIR=$T/evidence VERIF_REPLAY_DIR=$T/replays
mkdir -p $VERIF_EVIDENCE_DIR $VERIF_REPLAY_DIR
( cd $T/repo && git apply "$PATCH" ) || { echo "patch does not apply"; exit 9; }
for c in "$@"; do
  out=$(cd $T/verif && VERIF_SEED=${VERIF_SEED:-1} ./check "$c" "$TIER" 2>&1)
  code=$?
  echo "$c exit=$code"
  echo "$out" | grep -E '^(VIOLATION|  signature|INCONCLUSIVE|KNOWN-FINDING|FAILED)' | head -${LINES_MAX:-12}
done
git -C $T/repo checkout -- . ; git -C $T/repo clean -fdq
