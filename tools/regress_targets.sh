#!/bin/sh
# Re-runs every seeded change against the quick check of the property it was written for (and of the property
# recorded in meta.json as "caught_by" when that differs), on a private worktree (tools/try_mutant.sh).
# Output: one line per change in regress.tsv: id, property, exit code, first signature.
V="$(dirname "$(dirname "$(readlink -f "$0")")")"
OUT="${1:-$V/regress.tsv}"
SHARD="${2:-0}"; NSHARDS="${3:-1}"   # optional: only every NSHARDS-th change, starting at SHARD (set TRIAL_DIR per shard)
: > "$OUT"
i=0
for d in "$V"/seeded/*/; do
  i=$((i+1)); [ $((i % NSHARDS)) -eq "$SHARD" ] || continue
  m=$(basename "$d")
  target=$(sed -n 's/.*"breaks_property": "\(C[0-9]*\)".*/\1/p' "$d/meta.json")
  also=$(sed -n 's/.*"caught_by": "\(C[0-9]*\)".*/\1/p' "$d/meta.json")
  for c in $target $also; do
    case $c in C05|C12|C18|C19) lanes=1;; *) lanes=0;; esac
    out=$(VERIF_LANES=$lanes "$V/tools/try_mutant.sh" "$d/patch.diff" quick $c 2>&1)
    code=$(echo "$out" | sed -n "s/^$c exit=\([0-9]*\).*/\1/p" | head -1)
    sig=$(echo "$out" | grep -E '^  signature' | head -1 | sed 's/  signature: //')
    printf '%s\t%s\t%s\t%s\n' "$m" "$c" "$code" "$sig" >> "$OUT"
  done
done
echo "regress done: $(wc -l < "$OUT") rows; not caught: $(awk -F'\t' '$3!=1' "$OUT" | wc -l)"
