#!/bin/sh
# usage: validate_mutant.sh <dir with patch.diff and demo.rs>
# Confirms in a scratch worktree (outside /repo and /verif): demo passes on the clean tree, fails with the
# patch, and the unedited existing suite (with and without the serde feature) passes with the patch.
D="$(readlink -f "$1")"
WT=${VAL_WT:-/tmp/val_wt}
if [ ! -d "$WT" ]; then git -C /repo worktree add -q --detach "$WT" HEAD && cp /repo/Cargo.lock "$WT"/; fi
cd "$WT" || exit 9
git checkout -q --detach "$(git -C /repo rev-parse HEAD)" 2>/dev/null
git checkout -- . ; git clean -fdq -e target -e Cargo.lock
cp "$D/demo.rs" tests/zz_demo.rs
clean=$(cargo test --offline --features serde --test zz_demo 2>&1 | grep -E '^test result' | head -1)
git apply "$D/patch.diff" || { echo "RESULT $(basename $(dirname $D))/$(basename $D): patch does not apply"; exit 1; }
mut=$(cargo test --offline --features serde --test zz_demo 2>&1 | grep -E '^test result|error(\[|:)' | head -1)
rm tests/zz_demo.rs
s1=$(cargo test --offline 2>&1 | grep -E '^test result|error(\[|:)' | tr '\n' ';')
s2=$(cargo test --offline --features serde 2>&1 | grep -E '^test result|error(\[|:)' | tr '\n' ';')
git checkout -- . ; git clean -fdq -e target -e Cargo.lock
ok=yes
echo "$clean" | grep -q 'test result: ok' || ok=no
echo "$mut" | grep -qE 'FAILED|error' || ok=no
echo "$s1$s2" | grep -qE 'FAILED|error' && ok=no
echo "RESULT $(basename $(dirname $D))/$(basename $D): valid=$ok"
echo "  demo on clean tree : $clean"
echo "  demo with patch    : $mut"
echo "  suite with patch   : $s1"
echo "  suite+serde w/patch: $s2"
