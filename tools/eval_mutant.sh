#!/bin/sh
# usage: eval_mutant.sh <Cxx> <a|b> [extra checks...]   -> validates, then runs the target check(s) (quick) on /repo + patch
P=$1; L=$2; shift 2
D=${MUTOUT:-/tmp/mutout}/$P/$L
[ -f $D/patch.diff ] || { echo "no patch in $D"; exit 1; }
/verif/tools/validate_mutant.sh $D > $D/validate.txt 2>&1
grep -E '^RESULT' $D/validate.txt
/verif/tools/try_mutant.sh $D/patch.diff quick $P "$@" > $D/eval.txt 2>&1
grep -vE '^WARNING' $D/eval.txt | head -12
