#!/bin/sh
# usage: eval_mutant.sh <Cxx> <a|b|..> [extra checks...]   -> validates, then runs the target check(s) (quick) on /repo + patch
# verdict files go to $EVALOUT (default /tmp/evalout), never next to the change itself (its author may still be working there)
P=$1; L=$2; shift 2
D=${MUTOUT:-/tmp/mutout}/$P/$L
O=${EVALOUT:-/tmp/evalout}/$P/$L
mkdir -p "$O"
[ -f $D/patch.diff ] || { echo "no patch in $D"; exit 1; }
/verif/tools/validate_mutant.sh $D > $O/validate.txt 2>&1
grep -E '^RESULT' $O/validate.txt
/verif/tools/try_mutant.sh $D/patch.diff quick $P "$@" > $O/eval.txt 2>&1
grep -vE '^WARNING' $O/eval.txt | head -12
