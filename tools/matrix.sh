#!/bin/sh
# Runs every seeded mutant against every property's quick check and writes matrix.tsv (mutant, property, exit, signatures).
# Meant for `vp run --with-repo -- sh tools/matrix.sh [props...]`: works on the snapshot of /verif it is started in and on
# the repository snapshot $VP_RUN_REPO, never on /repo itself.
V="$(dirname "$(dirname "$(readlink -f "$0")")")"
cd "$V" || exit 9
REPO="${VP_RUN_REPO:-/repo}"
if [ "$REPO" != /repo ]; then
  sed -i "s|path = \"/repo\"|path = \"$REPO\"|" harness/*/Cargo.toml
  [ -f "$REPO/Cargo.lock" ] || cp /repo/Cargo.lock "$REPO"/
fi
export VERIF_REPO="$REPO"
export VERIF_EVIDENCE_DIR="$V/trial_evidence" VERIF_REPLAY_DIR="$V/trial_replays"; mkdir -p "$VERIF_EVIDENCE_DIR" "$VERIF_REPLAY_DIR"
PROPS="${*:-C01 C02 C03 C04 C05 C06 C07 C08 C09 C10 C11 C12 C13 C14 C15 C16 C17 C18 C19}"
: > matrix.tsv
# baseline row: the unchanged tree
for c in $PROPS; do
  out=$(./check $c quick 2>&1); code=$?
  printf 'CLEAN\t%s\t%s\t%s\n' "$c" "$code" "$(echo "$out" | grep -E '^  signature' | sed 's/  signature: //' | tr '\n' ';')" >> matrix.tsv
done
# newest rounds first, so that a run cut short still covers the changes no earlier matrix saw
for d in seeded/C*[gh]/ seeded/C*[ef]/ seeded/C*[cd]/ seeded/C*[ab]/ seeded/R*/; do
  m=$(basename "$d")
  ( cd "$REPO" && git apply "$V/$d/patch.diff" ) || { printf '%s\tALL\tpatch-does-not-apply\t\n' "$m" >> matrix.tsv; continue; }
  target=$(sed -n 's/.*"breaks_property": "\(C[0-9]*\)".*/\1/p' "$d/meta.json")
  for c in $PROPS; do
    # sanitizer lanes only for the property the change was written against (they dominate the run time)
    if [ "$c" = "$target" ]; then lanes=1; else lanes=0; fi
    out=$(VERIF_LANES=$lanes ./check $c quick 2>&1); code=$?
    printf '%s\t%s\t%s\t%s\n' "$m" "$c" "$code" "$(echo "$out" | grep -E '^(  signature|INCONCLUSIVE)' | sed 's/  signature: //' | cut -c1-160 | head -6 | tr '\n' ';')" >> matrix.tsv
  done
  git -C "$REPO" checkout -- .
done
echo "matrix done: $(wc -l < matrix.tsv) rows"
