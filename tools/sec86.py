import json, math
phases = {
"C01": ("exhaustive depth 8 over A5 × periods 1..=5 × 7 indicators; RAND (1 in 8 on the default configurations, built through `Default`); 15 band regimes; recycled / identity-changed instances (a quarter of them changed before the first input)", "offline exact-rational recheck, plain release"),
"C02": ("scalar (incl. 1e±150 and one-signed streams just below f64::MAX), bars (negated, crossed), exhaustive short sequences, soak 1.1·10⁶, periods up to usize::MAX; multipliers incl. 2.1, 0.1", "offline recheck, plain release"),
"C03": ("scalar (units 1e-24…1e9), bars (7 styles incl. tick grid, rescaled units), exhaustive, soak, huge periods; exact neutral cases judged", "offline recheck, plain release"),
"C04": ("one instance reset 255…65 537 times; enumeration depth 6 over {a, b, NaN, +inf, reset} and over {a, b, reset, serde-swap, clone-swap (original kept alive)}; random histories; non-finite, tick-grid and crossed-bar continuations; huge periods", "plain release"),
"C05": ("pause twins (1.1 s sleep); small-integer neighbours of other periods; zero-sign receivers; same values from different addresses; clone + clone_from (same / smaller / larger receivers) at every prefix of ≥ 24-input streams with resets; all merges; 16 threads × 30 rounds; migration", "process digests ×4 (two after decoy instances), TSan, Miri threads, plain release"),
"C06": ("checkpoint at every prefix (periods 1..=8; decimal-grid streams; every other continuation opens with a tie); every restore also through a reader, through varint / big-endian options and in place into the advanced original; a failing checkpoint first; windows of 5 000 / 70 001; huge periods; DataItem", "plain release"),
"C07": ("scalar and bars (tick grid, invalid bars, rescaled units, prices just below overflow), recycled and identity-changed instances incl. clone_from during warm-up, huge periods", "plain release"),
"C08": ("22 indicators × periods 1..=8,14,50 × 10 prefix kinds (incl. reset after 1..n+2 bars, reset from a level 1.7e5× higher, non-finite ticks for the window-only ones) × 12 levels × scalar/bar × 3; identity changes at the start of and inside each stretch", "plain release"),
"C09": ("scalar (15 regimes incl. ulp noise, quiet, tick grid; one band stream in 16 in units of 2⁻¹⁰²⁴ / 2⁻¹⁰²⁸), bars (low ≤ high only), long streams 1.1·10⁶, huge periods; identity changes incl. clone_from", "plain release"),
"C10": ("five-independent-field bars; one-price bars vs scalars (ties, one-ulp neighbours, −0.0); edge-alphabet enumeration; one stream in eight with 10⁷ bad ticks on windows of 128…300; implementor enumeration over valid ±0 bars; DataItem", "plain release"),
"C11": ("periods 0..=4096 exhaustive; tuples over 0..=24 exhaustive; 13 multipliers incl. ±inf, NaN; accessors/Display also on clone, restored and clone_from copies; defaults vs new(defaults) on 7 kinds of openings; boundary phase (2¹⁶+1 … usize::MAX) in its own process", "plain release"),
"C12": ("periods 1..=64 × 25 programs; sampled to 4096; 2³¹…usize::MAX for the allocation-free ones; defaults / DataItem / ctor-error; foreign thread; 1.1·10⁶-call runs with halts; Display/Debug with format flags", "ASan, Miri ops (windows up to 40), plain release (thorough: memcheck, llvm-cov)"),
"C13": ("soak runs of 2.2·10⁶ steps (MAD/CCI 2.2·10⁵) × 14 periods × 17 regimes × 3 band floors (seeded subset; saw-tooth × small periods and MIN/MAX on ulp noise / tick grid always); identity changes incl. clone_from", "plain release"),
"C14": ("2^k, arbitrary factor, shift twins (a third recycled; re-rating jumps; runs of identical bars); calm phase (shifts to 2³³ × level); windows of 10⁵ and 2¹⁷+1 slots; DataItem phase; MAX/−MIN mirror; huge units; long streams", "plain release"),
"C15": ("8 composites vs hand-wired parts; rescaled / negated / near-overflow / mixed bar-and-scalar streams; bars with exact zero closes; recycled + identity-changed composite; composite panics reported", "plain release"),
"C16": ("neighbouring floats (8 anchors × 3⁴ × 5 volumes); 10⁵ lattice tuples × 32 subsets; 120 orders on 5⁵ tuples; garbage-first and repeated setters; call sequences ≤ 6; 2·10⁶ random; clone and clone_from; error equality", "plain release"),
"C17": ("(indicator, period) pairs × prefix kinds (spikes, resets inside, non-finite ticks for window-only ones, 1 in 40 longer than 2¹⁶; monotone and almost-monotone suffixes after a history ending on the extreme); extension 2n+2; signed histories with ±0.0 at every fifth position", "plain release"),
"C18": ("14 stream shapes (incl. bad ticks, zeros, doubling halts, 5e14 volumes, NaN outages of 1 500 inputs) × periods {1,2,7,64,512,…} × extreme multipliers; reset / clone / serde / clone_from-rewind cycles × 300", "massif (2 lengths), memcheck, plain release"),
"C19": ("681 (type, bound) cells, with and without serde; dynamic exercise of 22 types", "—"),
}
def sci(x):
    if x is None: return "—"
    if x==0: return "0"
    e=int(math.floor(math.log10(x))); m=x/10**e
    sup=str(e).translate(str.maketrans("0123456789-","⁰¹²³⁴⁵⁶⁷⁸⁹⁻"))
    return f"{m:.1f}·10{sup}" if e>=4 else str(int(x))
rows=["| id | phases of the monitor | lanes | oracle evaluations | client calls observed | wall |","|---|---|---|---|---|---|"]
for i in range(1,20):
    p=f"C{i:02d}"; d=json.load(open(f"/verif/evidence/{p}.json")); c=d["coverage"]
    rows.append(f"| {p} | {phases[p][0]} | {phases[p][1]} | {sci(c.get('evaluations'))} | {sci(c.get('client_calls_observed'))} | {d['wall_s']:.0f} s |")
head="### 8.6 As built: per-property summary (quick tier, seed 1; numbers from the committed evidence files)\n\n"
tail="""

"Oracle evaluations" counts every judged item in every lane (main monitor, plain-release re-run, offline
recheck). The thorough tiers multiply the sampled parts by 15–60, deepen the exhaustive parts by one or two
levels (C01 depth 10, C04 depth 9, C11 periods to 32 768 and tuples to 64) and add the memcheck and coverage
lanes; they take 1–25 minutes each on this machine (C11, C16, C19: seconds — their spaces are enumerated
completely already). The last full thorough pass (seed 1, all 19; seed 2 for the reference-model checks) was
silent on the unchanged tree after false alarm F7 was repaired. Every check whose workload changed in rounds
11 to 14 was run again in its thorough tier afterwards, at a fresh seed (C05, C12, C13, C15, C18 at seed 3;
C01, C02, C03, C09, C10, C17 at seed 4; C04, C14, C15 at seed 6), and all 19 quick checks at
seeds 13 and 21 on the final harness (besides the sweeps at two to four seeds after each earlier round): all silent.
"""
s=open('/verif/DESIGN.md').read()
i=s.index("### 8.6 As built")
s=s[:i]+head+"\n".join(rows)+tail
open('/verif/DESIGN.md','w').write(s)
print("ok")
